import IdenaModel.Proofs.Mempool
/-!
# C14 — the mempool stays coherent under any submission, block and rebuild order

Model: `Model/Mempool.lean` (`core/mempool/txpool.go`, `txblock_builder.go`).  All theorems quantify over every
configuration (limits), every chain view (incl. the external validation predicates `restOk`, `feeOk`), every
transaction, and every Go map enumeration order (`enum`, `penum`, `sord`); the `_run` versions over every history
(`List Op`) from the empty pool.

* `build_ok` / `build_ok_run` — the list offered to a proposer: no panic, per sender consecutive nonces continuing from
  the committed state, gas ≤ cap, no duplicates, only transactions the pool holds, only the current epoch.
* `exec_sorted` (`wf_run`) — the containers stay coherent: hash index = executable ⊎ pending, executable queues
  strictly increasing in one epoch.  (`exec_gap_witness`: the DESIGN sketch "executable queues are gap-free" is *not*
  an invariant of the code in the session periods; the builder does not rely on it.)
* `accepted_in_pool`, `retrievable_step`, `accepted_retrievable` — an accepted transaction stays retrievable until a
  reset justifies its removal (in the block, or made invalid in the new view).
* `reset_removes_block_txs`, `stopSync_removes_block_txs`.
* `after_reset_no_stale`, `no_stale_preserved`, `after_reset_no_stale_run` — outside the validation sessions no consumed
  nonce / past epoch remains.
* `exec_consecutive` — after a full reset (and through later submissions) every executable queue is gap-free, continues
  the committed nonce and lies in the current epoch, for histories whose views follow the chain (`Consistent`:
  views move forward, a delivered block's transactions are consumed in the next view); `jinv_run` is the invariant
  behind it (gaps of a queue only at or below the committed nonce) and holds inside the sessions too.
* `removed_by_nonce_witness`, `sync_block_txs_remain_witness` — two behaviours of the code the statements above are
  precise about ("Tx removed by nonce"; blocks applied while syncing reach the pool only at `StopSync`).
-/
namespace IdenaModel.Mempool

/-! ## the list offered to a proposer -/

/-- per sender, the offered nonces are `eff s + 1, eff s + 2, …` in this order -/
def PerSenderConsecutive (eff : Nat → Nat) (l : List Tx) : Prop :=
  ∀ s, ((ofSender l s).map (·.nonce)) = List.range' (eff s + 1) (ofSender l s).length

/-- For **every** enumeration `enum` (not even required to be duplicate-free or complete), every view, every fee
predicate and every gas cap: building never panics and the list is per-sender consecutive from the committed nonce,
within the gas cap, duplicate-free, drawn from `enum`, current epoch only. -/
theorem build_core (c : Cfg) (v : View) (enum : List Tx) :
    ∃ l, build c v enum = some l ∧ PerSenderConsecutive v.eff l ∧ (l.map (·.gas)).sum ≤ c.gasCap ∧ l.Nodup ∧
      ∀ t ∈ l, t ∈ enum ∧ t.epoch = v.epoch := by
  unfold build
  simp only
  have h0 : BInv v c.gasCap (candidates v enum) [] 0 v.eff := by
    constructor <;> simp [ofSender]
  obtain ⟨ctx1, h1, hinv1⟩ := addPrio_spec (feeOk := v.feeOk) (cap := c.gasCap) (v := v) (txs := candidates v enum)
    (if (candidates v enum).any isPrio then (candidates v enum).filter isPrio else [])
    { cur := v.eff, perSender := if (candidates v enum).any isPrio then ofSender (candidates v enum) else fun _ => [],
      blockTxs := [], blockGas := 0 }
    h0
    (by
      intro s t ht
      simp only at ht
      split at ht
      · have := mem_ofSender.mp ht; exact ⟨this.2, this.1⟩
      · simp at ht)
    (by
      intro s
      simp only
      split
      · exact List.Sublist.filter _ List.filter_sublist
      · simp [ofSender])
  rw [h1]
  simp only
  have h2 := addTxs_spec (feeOk := v.feeOk) (cap := c.gasCap) (v := v) (txs := candidates v enum)
    (candidates v enum) ctx1 (fun t ht => ht) hinv1
  refine ⟨_, rfl, h2.cons, ?_, nodup_of_consecutive h2.cons, ?_⟩
  · rw [← h2.gas]; exact h2.cap
  · intro t ht
    have := h2.sub t ht
    unfold candidates at this
    rw [mem_sortBy] at this
    simpa using this

/-- `build_ok`: on a coherent pool, for every enumeration of the executable queues -/
theorem build_ok (c : Cfg) (v : View) (p : Pool) (enum : List Tx) (hwf : WF p) (henum : ∀ t ∈ enum, t ∈ p.exec) :
    ∃ l, build c v enum = some l ∧ PerSenderConsecutive v.eff l ∧ (l.map (·.gas)).sum ≤ c.gasCap ∧ l.Nodup ∧
      ∀ t ∈ l, t ∈ p.all ∧ t.epoch = v.epoch := by
  obtain ⟨l, h1, h2, h3, h4, h5⟩ := build_core c v enum
  exact ⟨l, h1, h2, h3, h4, fun t ht => ⟨(hwf.mem t).mpr (Or.inl (henum t (h5 t ht).1)), (h5 t ht).2⟩⟩

/-! ## histories -/

/-- the enumeration inputs of an operation only yield entries of the enumerated map -/
def Op.Sound : Op → Prop
  | .reset _ _ _ pe => SoundEnum pe
  | .stopSync _ _ _ pe => SoundEnum pe
  | _ => True

theorem wf_step {c : Cfg} {st : St} {op : Op} (hwf : WF st.pool) (hs : op.Sound) : WF (step c st op).pool := by
  cases op with
  | addExt t inb => exact wf_addExternal hwf
  | addInt t => exact wf_addInternal hwf
  | reset b v so pe => exact wf_resetTo hwf hs
  | setView v => exact hwf
  | startSync => exact wf_of_lists hwf rfl rfl rfl
  | stopSync b v so pe => exact wf_stopSync hwf hs

/-- `exec_sorted` (coherence invariant) for every history -/
theorem wf_run {c : Cfg} {st : St} (ops : List Op) (hwf : WF st.pool) (hs : ∀ op ∈ ops, op.Sound) :
    WF (run c st ops).pool := by
  induction ops generalizing st with
  | nil => exact hwf
  | cons op ops ih =>
    simp only [run, List.foldl_cons]
    exact ih (wf_step hwf (hs op (by simp))) (fun o ho => hs o (by simp [ho]))

/-- every executable queue is strictly increasing in nonce and lies in one epoch, after every history -/
theorem exec_sorted {c : Cfg} {v0 : View} (ops : List Op) (hs : ∀ op ∈ ops, op.Sound) (s : Nat) :
    (ofSender (run c ⟨v0, Pool.empty⟩ ops).pool.exec s).Pairwise (fun a b => a.nonce < b.nonce ∧ a.epoch = b.epoch) := by
  have hwf := wf_run (c := c) (st := ⟨v0, Pool.empty⟩) ops wf_empty hs
  have h1 := hwf.sorted s
  have h2 := hwf.oneEpoch s
  generalize ofSender (run c ⟨v0, Pool.empty⟩ ops).pool.exec s = l at h1 h2
  induction l with
  | nil => simp
  | cons a l ih =>
    rw [List.pairwise_cons] at h1 ⊢
    refine ⟨fun b hb => ⟨h1.1 b hb, h2 a (by simp) b (by simp [hb])⟩, ih h1.2 (fun x hx y hy => h2 x (by simp [hx]) y (by simp [hy]))⟩

/-- `build_ok` after every history, for every enumeration of the executable queues -/
theorem build_ok_run {c : Cfg} {v0 : View} (ops : List Op) (hs : ∀ op ∈ ops, op.Sound) (enum : List Tx)
    (henum : ∀ t ∈ enum, t ∈ (run c ⟨v0, Pool.empty⟩ ops).pool.exec) :
    let st := run c ⟨v0, Pool.empty⟩ ops
    ∃ l, build c st.view enum = some l ∧ PerSenderConsecutive st.view.eff l ∧ (l.map (·.gas)).sum ≤ c.gasCap ∧ l.Nodup ∧
      ∀ t ∈ l, t ∈ st.pool.all ∧ t.epoch = st.view.epoch :=
  build_ok c _ _ enum (wf_run ops wf_empty hs) henum

/-! ## accepted transactions stay retrievable -/

theorem add_ok_mem {c : Cfg} {v : View} {p : Pool} {t : Tx} {inb : Bool} (h : (add c v p t inb).2 = .ok) :
    t ∈ (add c v p t inb).1.all ∧ (t ∈ (add c v p t inb).1.exec ∨ t ∈ (add c v p t inb).1.pend) ∧ validate v inb t = .ok := by
  rcases add_cases c v p t inb with ⟨_, hne⟩ | ⟨_, hv, hp, _⟩
  · exact absurd h hne
  · rcases put_ok hp with ⟨he, _, _⟩ | he <;> rw [he] <;> simp [hv]

/-- a submission answered `ok` (not `deferred`, not an error) is in the hash index and in one of the two queues -/
theorem accepted_in_pool {c : Cfg} {v : View} {p : Pool} {t : Tx} :
    (∀ inb, (addExternal c v p t inb).2 = .ok →
      t ∈ (addExternal c v p t inb).1.all ∧ (t ∈ (addExternal c v p t inb).1.exec ∨ t ∈ (addExternal c v p t inb).1.pend)) ∧
    ((addInternal c v p t).2 = .ok →
      t ∈ (addInternal c v p t).1.all ∧ (t ∈ (addInternal c v p t).1.exec ∨ t ∈ (addInternal c v p t).1.pend)) := by
  constructor
  · intro inb h
    unfold addExternal at h ⊢
    split
    · rename_i hs; simp [hs] at h
    · rename_i hs; simp only [hs] at h; have := add_ok_mem h; exact ⟨this.1, this.2.1⟩
  · intro h
    unfold addInternal at h ⊢
    split
    · rename_i hs; simp [hs] at h
    · rename_i hs; simp only [hs] at h; have := add_ok_mem h; exact ⟨this.1, this.2.1⟩

theorem add_all_mono {c : Cfg} {v : View} {p : Pool} {t : Tx} {inb : Bool} {x : Tx} (h : x ∈ p.all) :
    x ∈ (add c v p t inb).1.all := by
  rcases add_cases c v p t inb with ⟨he, _⟩ | ⟨_, _, hp, _⟩
  · rw [he]; exact h
  · rcases put_ok hp with ⟨he, _, _⟩ | he <;> rw [he] <;> simp [h]

theorem addExternal_all_mono {c : Cfg} {v : View} {p : Pool} {t : Tx} {inb : Bool} {x : Tx} (h : x ∈ p.all) :
    x ∈ (addExternal c v p t inb).1.all := by
  unfold addExternal; split
  · rw [(addDeferred_lists c p t false).2.2]; exact h
  · exact add_all_mono h

theorem addInternal_all_mono {c : Cfg} {v : View} {p : Pool} {t : Tx} {x : Tx} (h : x ∈ p.all) :
    x ∈ (addInternal c v p t).1.all := by
  unfold addInternal; split
  · apply add_all_mono; rw [(addDeferred_lists c p t true).2.2]; exact h
  · exact add_all_mono h

theorem validate_cases (v : View) (inb : Bool) (t : Tx) (he : t.epoch = v.epoch) :
    validate v inb t = .invalidNonce ∨ validate v inb t = .ok ∨ validate v inb t = .invalid := by
  unfold validate
  split
  · omega
  · split
    · exact Or.inl rfl
    · split
      · exact Or.inr (Or.inl rfl)
      · exact Or.inr (Or.inr rfl)

/-- "made invalid" by the view `v`: past epoch, consumed nonce, or a transaction of the same sender with a nonce not
above it (held by the pool `all`) fails validation — the pool drops everything behind an invalid transaction
(`txpool.go:662-669`, "Tx removed by nonce"). -/
def MadeInvalid (v : View) (all : List Tx) (t : Tx) : Prop :=
  t.epoch < v.epoch ∨
  (t.epoch = v.epoch ∧
    (validate v false t = .invalidNonce ∨
      ∃ e ∈ all, e.sender = t.sender ∧ e.epoch = v.epoch ∧ e.nonce ≤ t.nonce ∧ validate v false e = .invalid))

theorem removable_madeInvalid {v : View} {all all' : List Tx} {t : Tx} (hsub : ∀ x ∈ all, x ∈ all')
    (h : removable v all t = true) : MadeInvalid v all' t := by
  unfold removable at h
  simp only [Bool.or_eq_true, Bool.and_eq_true, decide_eq_true_eq, beq_iff_eq, List.any_eq_true, bne_iff_ne, ne_eq] at h
  rcases h with h | ⟨he, h | ⟨e, hm, ⟨⟨⟨⟨h1, h2⟩, h3⟩, h4⟩, h5⟩⟩⟩
  · exact Or.inl h
  · exact Or.inr ⟨he, Or.inl h⟩
  · refine Or.inr ⟨he, Or.inr ⟨e, hsub e hm, h2, h1, h3, ?_⟩⟩
    rcases validate_cases v false e h1 with h | h | h
    · exact absurd h h5
    · exact absurd h h4
    · exact h

/-- what justifies that a transaction of the pool is gone after an operation -/
def Justified (c : Cfg) (st : St) (op : Op) (t : Tx) : Prop :=
  match op with
  | .reset b v _ _ => t ∈ b ∨ (fullReset c v = true ∧ MadeInvalid v st.pool.all t)
  | .stopSync b v _ _ => t ∈ b ∨ (fullReset c v = true ∧ MadeInvalid v st.pool.all t)
  | _ => False

theorem resetTo_keeps {c : Cfg} {v : View} {p : Pool} {block : List Tx} {sord : List Nat} {penum : List Tx → List Tx}
    (hwf : WF p) (hp : SoundEnum penum) {t : Tx} (h : t ∈ p.all) :
    t ∈ (resetTo c v p block sord penum).all ∨ t ∈ block ∨ (fullReset c v = true ∧ MadeInvalid v p.all t) := by
  by_cases hb : t ∈ block
  · exact Or.inr (Or.inl hb)
  · by_cases hf : fullReset c v = true
    · cases hr : removable v ((block.foldl remove p).all) t with
      | true =>
        exact Or.inr (Or.inr ⟨hf, removable_madeInvalid (fun x hx => ((mem_foldl_remove hwf block x).mp hx).1) hr⟩)
      | false => exact Or.inl ((mem_resetTo hwf hp t).mpr ⟨h, hb, fun _ => hr⟩)
    · exact Or.inl ((mem_resetTo hwf hp t).mpr ⟨h, hb, fun h' => absurd h' hf⟩)

theorem foldl_adds_mono (c : Cfg) (v : View) (l : List (Tx × Bool)) (q : Pool) {x : Tx} (h : x ∈ q.all) :
    x ∈ (l.foldl (fun q e => if e.2 then (addInternal c v q e.1).1 else (addExternal c v q e.1 false).1) q).all := by
  induction l generalizing q with
  | nil => exact h
  | cons e l ih =>
    simp only [List.foldl_cons]
    apply ih
    split
    · exact addInternal_all_mono h
    · exact addExternal_all_mono h

theorem stopSync_all_sup {c : Cfg} {v : View} {p : Pool} {block : List Tx} {sord : List Nat} {penum : List Tx → List Tx}
    {x : Tx} (h : x ∈ (resetTo c v { p with syncing := false } block sord penum).all) :
    x ∈ (stopSync c v p block sord penum).all := by
  unfold stopSync
  simp only
  exact foldl_adds_mono c v _ _ h

/-- one step: a transaction of the pool is still there, or the step was a reset that justifies its removal -/
theorem retrievable_step {c : Cfg} {st : St} {op : Op} (hwf : WF st.pool) (hs : op.Sound) {t : Tx}
    (h : t ∈ st.pool.all) : t ∈ (step c st op).pool.all ∨ Justified c st op t := by
  cases op with
  | addExt t' inb => exact Or.inl (addExternal_all_mono h)
  | addInt t' => exact Or.inl (addInternal_all_mono h)
  | reset b v so pe =>
    rcases resetTo_keeps (c := c) (v := v) (block := b) (sord := so) hwf hs h with h' | h' | h'
    · exact Or.inl h'
    · exact Or.inr (Or.inl h')
    · exact Or.inr (Or.inr h')
  | setView v => exact Or.inl h
  | startSync => exact Or.inl h
  | stopSync b v so pe =>
    have hwf0 : WF ({ st.pool with syncing := false } : Pool) := wf_of_lists hwf rfl rfl rfl
    rcases resetTo_keeps (c := c) (v := v) (block := b) (sord := so) hwf0 hs (t := t) h with h' | h' | h'
    · exact Or.inl (stopSync_all_sup h')
    · exact Or.inr (Or.inl h')
    · exact Or.inr (Or.inr h')

/-- no operation of the history justifies the removal of `t` -/
def NeverJustified (c : Cfg) (t : Tx) : St → List Op → Prop
  | _, [] => True
  | st, op :: ops => ¬ Justified c st op t ∧ NeverJustified c t (step c st op) ops

/-- `accepted_retrievable`: over every history, a transaction the pool holds (e.g. just accepted, `accepted_in_pool`)
stays in the hash index (`GetTx`) — hence in one of the sender's queues (`GetPendingByAddress`) by coherence — as
long as no reset delivered it in a block or made it invalid. -/
theorem accepted_retrievable {c : Cfg} {st : St} (ops : List Op) (hwf : WF st.pool) (hs : ∀ op ∈ ops, op.Sound) {t : Tx}
    (h : t ∈ st.pool.all) (hn : NeverJustified c t st ops) :
    t ∈ (run c st ops).pool.all ∧ (t ∈ (run c st ops).pool.exec ∨ t ∈ (run c st ops).pool.pend) := by
  induction ops generalizing st with
  | nil => exact ⟨h, (hwf.mem t).mp h⟩
  | cons op ops ih =>
    simp only [run, List.foldl_cons]
    have hso := hs op (by simp)
    rcases retrievable_step (c := c) hwf hso h with h' | h'
    · exact ih (wf_step hwf hso) (fun o ho => hs o (by simp [ho])) h' hn.2
    · exact absurd h' hn.1

/-! ## a block's transactions are gone after the reset -/

theorem reset_removes_block_txs {c : Cfg} {v : View} {p : Pool} {block : List Tx} {sord : List Nat}
    {penum : List Tx → List Tx} (hwf : WF p) (hp : SoundEnum penum) {t : Tx} (ht : t ∈ block) :
    t ∉ (resetTo c v p block sord penum).all ∧ t ∉ (resetTo c v p block sord penum).exec ∧
    t ∉ (resetTo c v p block sord penum).pend := by
  have h1 : t ∉ (resetTo c v p block sord penum).all := fun h => ((mem_resetTo hwf hp t).mp h).2.1 ht
  have hwf' := wf_resetTo (c := c) (v := v) (block := block) (sord := sord) hwf hp
  exact ⟨h1, fun h => h1 ((hwf'.mem t).mpr (Or.inl h)), fun h => h1 ((hwf'.mem t).mpr (Or.inr h))⟩

instance (v : View) (t : Tx) : Decidable (Stale v t) := by unfold Stale; exact inferInstance

theorem validate_ok_not_stale {v : View} {inb : Bool} {t : Tx} (h : validate v inb t = .ok) : ¬ Stale v t := by
  unfold validate at h
  split at h
  · cases h
  · split at h
    · cases h
    · rename_i h1 h2
      rintro (hs | ⟨hs1, hs2, hs3⟩)
      · omega
      · exact h2 ⟨hs3, hs2, hs1⟩

theorem add_new_valid {c : Cfg} {v : View} {p : Pool} {t : Tx} {inb : Bool} {x : Tx}
    (h : x ∈ (add c v p t inb).1.all) : x ∈ p.all ∨ (x = t ∧ validate v inb t = .ok) := by
  rcases add_cases c v p t inb with ⟨he, _⟩ | ⟨_, hv, hp, _⟩
  · rw [he] at h; exact Or.inl h
  · rcases put_ok hp with ⟨he, _, _⟩ | he <;> rw [he] at h <;> simp at h <;> rcases h with h | h
    · exact Or.inl h
    · exact Or.inr ⟨h, hv⟩
    · exact Or.inl h
    · exact Or.inr ⟨h, hv⟩

theorem addExternal_new_valid {c : Cfg} {v : View} {p : Pool} {t : Tx} {inb : Bool} {x : Tx}
    (h : x ∈ (addExternal c v p t inb).1.all) : x ∈ p.all ∨ ¬ Stale v x := by
  unfold addExternal at h; split at h
  · rw [(addDeferred_lists c p t false).2.2] at h; exact Or.inl h
  · rcases add_new_valid h with h | ⟨rfl, hv⟩
    · exact Or.inl h
    · exact Or.inr (validate_ok_not_stale hv)

theorem addInternal_new_valid {c : Cfg} {v : View} {p : Pool} {t : Tx} {x : Tx}
    (h : x ∈ (addInternal c v p t).1.all) : x ∈ p.all ∨ ¬ Stale v x := by
  unfold addInternal at h; split at h
  · rcases add_new_valid h with h | ⟨rfl, hv⟩
    · rw [(addDeferred_lists c p t true).2.2] at h; exact Or.inl h
    · exact Or.inr (validate_ok_not_stale hv)
  · rcases add_new_valid h with h | ⟨rfl, hv⟩
    · exact Or.inl h
    · exact Or.inr (validate_ok_not_stale hv)

theorem foldl_adds_new_valid (c : Cfg) (v : View) (l : List (Tx × Bool)) (q : Pool) {x : Tx}
    (h : x ∈ (l.foldl (fun q e => if e.2 then (addInternal c v q e.1).1 else (addExternal c v q e.1 false).1) q).all) :
    x ∈ q.all ∨ ¬ Stale v x := by
  induction l generalizing q with
  | nil => exact Or.inl h
  | cons e l ih =>
    simp only [List.foldl_cons] at h
    rcases ih _ h with h' | h'
    · split at h'
      · exact addInternal_new_valid h'
      · exact addExternal_new_valid h'
    · exact Or.inr h'

/-- `StopSync`: the block's transactions do not come back from the deferred queue when the view follows the block
(every transaction of the block is consumed in `v`) -/
theorem stopSync_removes_block_txs {c : Cfg} {v : View} {p : Pool} {block : List Tx} {sord : List Nat}
    {penum : List Tx → List Tx} (hwf : WF p) (hp : SoundEnum penum) (hv : ∀ t ∈ block, Stale v t) {t : Tx} (ht : t ∈ block) :
    t ∉ (stopSync c v p block sord penum).all := by
  intro h
  unfold stopSync at h
  simp only at h
  have hwf0 : WF ({ p with syncing := false } : Pool) := wf_of_lists hwf rfl rfl rfl
  rcases foldl_adds_new_valid c v _ _ h with h' | h'
  · exact (reset_removes_block_txs (c := c) (v := v) (sord := sord) hwf0 hp ht).1 h'
  · exact h' (hv t ht)

/-! ## outside the validation sessions nothing stale remains -/

def NoStale (v : View) (p : Pool) : Prop := ∀ t ∈ p.all, ¬ Stale v t

theorem not_removable_not_stale {v : View} {all : List Tx} {t : Tx} (h : removable v all t = false) : ¬ Stale v t := by
  unfold removable at h
  simp only [Bool.or_eq_false_iff, decide_eq_false_iff_not, Bool.and_eq_false_iff, beq_eq_false_iff_ne, ne_eq] at h
  rintro (hs | ⟨hs1, hs2, hs3⟩)
  · exact h.1 hs
  · rcases h.2 with h2 | ⟨h2, _⟩
    · exact h2 hs1
    · apply h2
      unfold validate
      rw [if_neg (by omega), if_pos ⟨hs3, hs2, hs1⟩]

/-- `after_reset_no_stale`: a reset outside the validation sessions (or with `ResetInCeremony`) leaves no transaction
with a consumed nonce or a past epoch -/
theorem after_reset_no_stale {c : Cfg} {v : View} {p : Pool} {block : List Tx} {sord : List Nat}
    {penum : List Tx → List Tx} (hwf : WF p) (hp : SoundEnum penum) (hf : fullReset c v = true) :
    NoStale v (resetTo c v p block sord penum) :=
  fun t ht => not_removable_not_stale (((mem_resetTo hwf hp t).mp ht).2.2 hf)

theorem after_stopSync_no_stale {c : Cfg} {v : View} {p : Pool} {block : List Tx} {sord : List Nat}
    {penum : List Tx → List Tx} (hwf : WF p) (hp : SoundEnum penum) (hf : fullReset c v = true) :
    NoStale v (stopSync c v p block sord penum) := by
  intro t ht
  unfold stopSync at ht
  simp only at ht
  have hwf0 : WF ({ p with syncing := false } : Pool) := wf_of_lists hwf rfl rfl rfl
  rcases foldl_adds_new_valid c v _ _ ht with h' | h'
  · exact after_reset_no_stale (c := c) (block := block) (sord := sord) hwf0 hp hf t h'
  · exact h'

/-- operations that leave the chain view alone -/
def Op.keepsView : Op → Prop
  | .addExt _ _ => True
  | .addInt _ => True
  | .startSync => True
  | _ => False

/-- submissions never bring a stale transaction in -/
theorem no_stale_preserved {c : Cfg} {st : St} (ops : List Op) (hk : ∀ op ∈ ops, op.keepsView)
    (h : NoStale st.view st.pool) : (run c st ops).view = st.view ∧ NoStale st.view (run c st ops).pool := by
  induction ops generalizing st with
  | nil => exact ⟨rfl, h⟩
  | cons op ops ih =>
    simp only [run, List.foldl_cons]
    have hko := hk op (by simp)
    have hrest : ∀ o ∈ ops, o.keepsView := fun o ho => hk o (by simp [ho])
    cases op with
    | addExt t inb =>
      have := ih (st := step c st (.addExt t inb)) hrest (fun x hx => by
        rcases addExternal_new_valid hx with h' | h'
        · exact h x h'
        · exact h')
      exact this
    | addInt t =>
      have := ih (st := step c st (.addInt t)) hrest (fun x hx => by
        rcases addInternal_new_valid hx with h' | h'
        · exact h x h'
        · exact h')
      exact this
    | startSync => exact ih (st := step c st .startSync) hrest h
    | reset b v so pe => exact absurd hko (by simp [Op.keepsView])
    | setView v => exact absurd hko (by simp [Op.keepsView])
    | stopSync b v so pe => exact absurd hko (by simp [Op.keepsView])

/-- `after_reset_no_stale` over histories: after any history, a new-block reset (or `StopSync`) in a view outside the
validation sessions, followed by any submissions / sync starts, leaves no stale transaction in the pool. -/
theorem after_reset_no_stale_run {c : Cfg} {v0 : View} (pre : List Op) (hs : ∀ op ∈ pre, op.Sound)
    (b : List Tx) (v : View) (so : List Nat) (pe : List Tx → List Tx) (hpe : SoundEnum pe)
    (hf : fullReset c v = true) (post : List Op) (hk : ∀ op ∈ post, op.keepsView) :
    NoStale v (run c ⟨v0, Pool.empty⟩ (pre ++ .reset b v so pe :: post)).pool ∧
    NoStale v (run c ⟨v0, Pool.empty⟩ (pre ++ .stopSync b v so pe :: post)).pool := by
  have hwf := wf_run (c := c) (st := ⟨v0, Pool.empty⟩) pre wf_empty hs
  constructor
  · simp only [run, List.foldl_append, List.foldl_cons]
    exact (no_stale_preserved (c := c) (st := step c (List.foldl (step c) ⟨v0, Pool.empty⟩ pre) (.reset b v so pe)) post hk
      (after_reset_no_stale hwf hpe hf)).2
  · simp only [run, List.foldl_append, List.foldl_cons]
    exact (no_stale_preserved (c := c) (st := step c (List.foldl (step c) ⟨v0, Pool.empty⟩ pre) (.stopSync b v so pe)) post hk
      (after_stopSync_no_stale hwf hpe hf)).2

/-! ## `exec_consecutive` -/

theorem execConsec_push {v : View} {p : Pool} {t : Tx} {limit : Int} {pend' all' : List Tx} (h : ExecConsec v p)
    (hadd : sortedAdd limit (ofSender p.exec t.sender) t = none)
    (h0 : ofSender p.exec t.sender = [] → t.epoch = v.epoch ∧ t.nonce = v.eff t.sender + 1) :
    ExecConsec v { p with exec := p.exec ++ [t], pend := pend', all := all' } := by
  have hlast := sortedAdd_none hadd
  intro s
  simp only
  rw [ofSender_append]
  by_cases hs : t.sender = s
  · subst hs
    simp only [if_true, List.map_append, List.map_singleton, List.length_append, List.length_singleton]
    have hq := h t.sender
    cases hl : (ofSender p.exec t.sender).getLast? with
    | none =>
      have hnil : ofSender p.exec t.sender = [] := by simpa [List.getLast?_eq_none_iff] using hl
      rw [hnil]
      simp [(h0 hnil).2, (h0 hnil).1]
    | some last =>
      obtain ⟨ys, hys⟩ := List.getLast?_eq_some_iff.mp hl
      have hn := (hlast last hl).1
      have he := (hlast last hl).2
      have hlm : last ∈ ofSender p.exec t.sender := by rw [hys]; simp
      have hlast_n : last.nonce = v.eff t.sender + 1 + ys.length := by
        have h1 := hq.1
        rw [hys] at h1
        simp only [List.map_append, List.map_singleton, List.length_append, List.length_singleton] at h1
        rw [List.range'_concat] at h1
        have := List.append_inj' h1 (by simp)
        simpa using this.2
      constructor
      · rw [List.range'_concat, hq.1]
        congr 1
        rw [hys]; simp
        omega
      · intro x hx
        simp only [List.mem_append, List.mem_singleton] at hx
        rcases hx with hx | rfl
        · exact hq.2 x hx
        · rw [he]; exact hq.2 last hlm
  · simp only [hs, if_false, List.append_nil]
    exact h s

theorem execConsec_of_exec {v : View} {p q : Pool} (h : ExecConsec v p) (he : q.exec = p.exec) : ExecConsec v q := by
  intro s; rw [he]; exact h s

theorem execConsec_add {c : Cfg} {v : View} {p : Pool} {t : Tx} {inb : Bool} (h : ExecConsec v p) :
    ExecConsec v (add c v p t inb).1 := by
  rcases add_cases c v p t inb with ⟨he, _⟩ | ⟨_, _, hp, _⟩
  · rw [he]; exact h
  · rcases put_ok hp with ⟨he, hadd, h0⟩ | he
    · rw [he]; exact execConsec_push h hadd h0
    · rw [he]; exact execConsec_of_exec h rfl

theorem execConsec_addExternal {c : Cfg} {v : View} {p : Pool} {t : Tx} {inb : Bool} (h : ExecConsec v p) :
    ExecConsec v (addExternal c v p t inb).1 := by
  unfold addExternal; split
  · exact execConsec_of_exec h (addDeferred_lists c p t false).1
  · exact execConsec_add h

theorem execConsec_addInternal {c : Cfg} {v : View} {p : Pool} {t : Tx} (h : ExecConsec v p) :
    ExecConsec v (addInternal c v p t).1 := by
  unfold addInternal; split
  · exact execConsec_add (execConsec_of_exec h (addDeferred_lists c p t true).1)
  · exact execConsec_add h

theorem execConsec_foldl_adds (c : Cfg) (v : View) (l : List (Tx × Bool)) (q : Pool) (h : ExecConsec v q) :
    ExecConsec v (l.foldl (fun q e => if e.2 then (addInternal c v q e.1).1 else (addExternal c v q e.1 false).1) q) := by
  induction l generalizing q with
  | nil => exact h
  | cons e l ih =>
    simp only [List.foldl_cons]
    apply ih
    split
    · exact execConsec_addInternal h
    · exact execConsec_addExternal h

/-- the views of a history follow the chain: they only move forward, account epochs never exceed the epoch, and the
transactions of a delivered block are consumed in the view that follows it -/
def Consistent : View → List Op → Prop
  | _, [] => True
  | v, .reset b v' _ _ :: ops => Mono v v' ∧ ViewOk v' ∧ (∀ t ∈ b, Stale v' t) ∧ Consistent v' ops
  | v, .stopSync b v' _ _ :: ops => Mono v v' ∧ ViewOk v' ∧ (∀ t ∈ b, Stale v' t) ∧ Consistent v' ops
  | v, .setView v' :: ops => Mono v v' ∧ Consistent v' ops
  | v, .addExt _ _ :: ops => Consistent v ops
  | v, .addInt _ :: ops => Consistent v ops
  | v, .startSync :: ops => Consistent v ops

theorem jinv_stopSync {c : Cfg} {v0 v : View} {p : Pool} {block : List Tx} {sord : List Nat} {penum : List Tx → List Tx}
    (hwf : WF p) (h : JInv v0 p) (hm : Mono v0 v) (hv : ViewOk v) (hb : ∀ t ∈ block, Stale v t) (hp : SoundEnum penum) :
    JInv v (stopSync c v p block sord penum) ∧ (fullReset c v = true → ExecConsec v (stopSync c v p block sord penum)) := by
  have hwf0 : WF ({ p with syncing := false } : Pool) := wf_of_lists hwf rfl rfl rfl
  have h0 : JInv v0 ({ p with syncing := false } : Pool) := jinv_of_exec h rfl
  have hr := jinv_resetTo (c := c) (block := block) (sord := sord) hwf0 h0 hm hv hb hp
  unfold stopSync
  simp only
  constructor
  · have h1 := jinv_foldl_adds c v (resetTo c v { p with syncing := false } block sord penum).deferred
      { resetTo c v { p with syncing := false } block sord penum with deferred := [] } (jinv_of_exec hr.1 rfl)
    exact jinv_of_exec h1 rfl
  · intro hf
    have h1 := execConsec_foldl_adds c v (resetTo c v { p with syncing := false } block sord penum).deferred
      { resetTo c v { p with syncing := false } block sord penum with deferred := [] } (execConsec_of_exec (hr.2 hf) rfl)
    exact execConsec_of_exec h1 rfl

theorem jinv_step {c : Cfg} {st : St} {op : Op} (ops : List Op) (hwf : WF st.pool) (hs : op.Sound)
    (h : JInv st.view st.pool) (hc : Consistent st.view (op :: ops)) :
    JInv (step c st op).view (step c st op).pool ∧ Consistent (step c st op).view ops := by
  cases op with
  | addExt t inb => exact ⟨jinv_addExternal h, hc⟩
  | addInt t => exact ⟨jinv_addInternal h, hc⟩
  | reset b v so pe => exact ⟨(jinv_resetTo hwf h hc.1 hc.2.1 hc.2.2.1 hs).1, hc.2.2.2⟩
  | setView v => exact ⟨jinv_mono h hc.1, hc.2⟩
  | startSync => exact ⟨jinv_of_exec h rfl, hc⟩
  | stopSync b v so pe => exact ⟨(jinv_stopSync hwf h hc.1 hc.2.1 hc.2.2.1 hs).1, hc.2.2.2⟩

theorem jinv_run {c : Cfg} {st : St} (ops : List Op) (hwf : WF st.pool) (hs : ∀ op ∈ ops, op.Sound)
    (h : JInv st.view st.pool) (hc : Consistent st.view ops) : JInv (run c st ops).view (run c st ops).pool := by
  induction ops generalizing st with
  | nil => exact h
  | cons op ops ih =>
    simp only [run, List.foldl_cons]
    have hso := hs op (by simp)
    have := jinv_step (c := c) ops hwf hso h hc
    exact ih (wf_step hwf hso) (fun o ho => hs o (by simp [ho])) this.1 this.2

theorem execConsec_preserved {c : Cfg} {st : St} (ops : List Op) (hk : ∀ op ∈ ops, op.keepsView)
    (h : ExecConsec st.view st.pool) : ExecConsec st.view (run c st ops).pool := by
  induction ops generalizing st with
  | nil => exact h
  | cons op ops ih =>
    simp only [run, List.foldl_cons]
    have hko := hk op (by simp)
    have hrest : ∀ o ∈ ops, o.keepsView := fun o ho => hk o (by simp [ho])
    cases op with
    | addExt t inb => exact ih (st := step c st (.addExt t inb)) hrest (execConsec_addExternal h)
    | addInt t => exact ih (st := step c st (.addInt t)) hrest (execConsec_addInternal h)
    | startSync => exact ih (st := step c st .startSync) hrest (execConsec_of_exec h rfl)
    | reset b v so pe => exact absurd hko (by simp [Op.keepsView])
    | setView v => exact absurd hko (by simp [Op.keepsView])
    | stopSync b v so pe => exact absurd hko (by simp [Op.keepsView])

/-- `exec_consecutive`: for every history whose views follow the chain (`Consistent`), after a new-block reset (or
`StopSync`) outside the validation sessions, and through any later submissions, every executable queue is gap-free,
starts right after the committed nonce and lies in the current epoch. -/
theorem exec_consecutive {c : Cfg} {v0 : View} (pre : List Op) (hs : ∀ op ∈ pre, op.Sound) (hc : Consistent v0 pre)
    (b : List Tx) (v : View) (so : List Nat) (pe : List Tx → List Tx) (hpe : SoundEnum pe)
    (hm : Mono (run c ⟨v0, Pool.empty⟩ pre).view v) (hv : ViewOk v) (hb : ∀ t ∈ b, Stale v t)
    (hf : fullReset c v = true) (post : List Op) (hk : ∀ op ∈ post, op.keepsView) :
    ExecConsec v (run c ⟨v0, Pool.empty⟩ (pre ++ .reset b v so pe :: post)).pool ∧
    ExecConsec v (run c ⟨v0, Pool.empty⟩ (pre ++ .stopSync b v so pe :: post)).pool := by
  have hwf := wf_run (c := c) (st := ⟨v0, Pool.empty⟩) pre wf_empty hs
  have hj := jinv_run (c := c) (st := ⟨v0, Pool.empty⟩) pre wf_empty hs (jinv_empty v0) hc
  constructor
  · simp only [run, List.foldl_append, List.foldl_cons]
    exact execConsec_preserved (c := c) (st := step c (List.foldl (step c) ⟨v0, Pool.empty⟩ pre) (.reset b v so pe)) post hk
      ((jinv_resetTo hwf hj hm hv hb hpe).2 hf)
  · simp only [run, List.foldl_append, List.foldl_cons]
    exact execConsec_preserved (c := c) (st := step c (List.foldl (step c) ⟨v0, Pool.empty⟩ pre) (.stopSync b v so pe)) post hk
      ((jinv_stopSync hwf hj hm hv hb hpe).2 hf)

/-! ## witnesses and non-vacuity -/
namespace Witness

def cfg : Cfg := ⟨-1, -1, 0, 0, false, 5000, 0, 100⟩
/-- a view: epoch 0, given period, sender 1 has committed nonce `n` -/
def view (period n : Nat) (bad : List Nat := []) : View :=
  ⟨0, period, fun s => if s = 1 then n else 0, fun _ => 0, fun _ t => !bad.contains t.id, fun _ => true⟩
def t1 : Tx := ⟨1, 1, 1, 0, 1000, 0⟩
def t2 : Tx := ⟨2, 1, 2, 0, 1000, 0⟩
def t3 : Tx := ⟨3, 1, 3, 0, 1000, 0⟩
def f1 : Tx := ⟨9, 1, 1, 0, 1000, 0⟩   -- another transaction of sender 1 with nonce 1, never seen by the pool
def ident : List Tx → List Tx := fun l => l

/-- three submissions in the long session, then a block holding a foreign nonce-1 transaction and the pool's nonce-2 one -/
def gapOps : List Op :=
  [.addExt t1 true, .addExt t2 true, .addExt t3 true, .reset [f1, t2] (view 3 2) [1] ident]

def gapState : St := run cfg ⟨view 3 0, Pool.empty⟩ gapOps

end Witness
open Witness

/-- The DESIGN sketch "every executable queue is gap-free" is not an invariant of the code: inside the validation
sessions `ResetTo` returns early (`txpool.go:595-602`), and a block that carries a competitor for nonce 1 plus the pool's
own nonce-2 transaction leaves the queue `[1, 3]`.  The candidate list is still correct (`build_ok`): only nonce 3 is offered. -/
theorem exec_gap_witness :
    (ofSender gapState.pool.exec 1).map (·.nonce) = [1, 3] ∧
    build cfg gapState.view gapState.pool.exec = some [t3] := by decide

/-- `build_ok_run` is not vacuous: a history after which two transactions are offered -/
example : build cfg (run cfg ⟨view 0 0, Pool.empty⟩ [.addExt t2 true, .addExt t1 true, .reset [] (view 0 0) [1] ident]).view
    (run cfg ⟨view 0 0, Pool.empty⟩ [.addExt t2 true, .addExt t1 true, .reset [] (view 0 0) [1] ident]).pool.exec = some [t1, t2] := by decide

/-- the gas cap cuts the list: cap 2500 admits two of three 1000-gas transactions -/
example : build { cfg with gasCap := 2500 } (view 0 0) [t1, t2, t3] = some [t1, t2] := by decide

/-- "Tx removed by nonce": `t3` is valid on its own in the new view, yet the reset drops it because the pool's `t2`
(same sender, lower nonce) fails validation — the third disjunct of `MadeInvalid` is what the code does. -/
theorem removed_by_nonce_witness :
    let st := run cfg ⟨view 0 0, Pool.empty⟩ [.addExt t1 true, .addExt t2 true, .addExt t3 true]
    let v' := view 0 1 [2]
    t3 ∈ st.pool.all ∧ validate v' false t3 = .ok ∧
    t3 ∉ (step cfg st (.reset [t1] v' [1] ident)).pool.all := by decide

/-- `accepted_retrievable` is not vacuous: `t3` survives the same history when `t2` stays valid -/
example : NeverJustified cfg t3 (run cfg ⟨view 0 0, Pool.empty⟩ [.addExt t1 true, .addExt t2 true, .addExt t3 true])
    [.reset [t1] (view 0 1) [1] ident, .startSync, .setView (view 0 1)] := by
  simp only [NeverJustified, Justified, MadeInvalid]
  decide

/-- `stopSync_removes_block_txs` is not vacuous: the block's transactions are consumed in the view that follows it -/
example : ∀ t ∈ [t1, t2], Stale (view 0 2) t := by decide

/-- `after_reset_no_stale` is not vacuous (a view outside the sessions) and really removes something -/
example : fullReset cfg (view 1 2) = true ∧
    (run cfg ⟨view 0 0, Pool.empty⟩ [.addExt t1 true, .addExt t2 true, .addExt t3 true, .reset [f1] (view 1 2) [1] ident]).pool.all = [t3] := by
  decide

/-- inside the sessions the same reset keeps the consumed transactions (the property excludes the sessions) -/
example : fullReset cfg (view 3 2) = false ∧
    (run cfg ⟨view 0 0, Pool.empty⟩ [.addExt t1 true, .addExt t2 true, .addExt t3 true, .reset [f1] (view 3 2) [1] ident]).pool.all = [t1, t2, t3] := by
  decide

/-- `exec_consecutive` is not vacuous: a consistent history whose block consumes nonce 1; the queue continues with 2, 3 -/
example :
    Consistent (view 0 0) [.addExt t1 true, .addExt t2 true, .addExt t3 true] ∧ Mono (view 0 0) (view 0 1) ∧
    ViewOk (view 0 1) ∧ (∀ t ∈ [t1], Stale (view 0 1) t) ∧ fullReset cfg (view 0 1) = true ∧
    ofSender (run cfg ⟨view 0 0, Pool.empty⟩
      ([.addExt t1 true, .addExt t2 true, .addExt t3 true] ++ [.reset [t1] (view 0 1) [1] ident])).pool.exec 1 = [t2, t3] := by
  refine ⟨by simp [Consistent], ⟨by decide, fun _ s => ?_⟩, fun s => by simp [view], by decide, by decide, by decide⟩
  simp only [View.eff, view]
  by_cases h : s = 1 <;> simp [h]

/-- Scope note (not a theorem about resets): while the node is syncing, applied blocks do not reach the pool
(`blockchain.go:465`); `StopSync` delivers only the head block.  If it happens inside the validation sessions the
transactions of the earlier blocks stay in the pool (they are consumed, so `build_ok` never offers them) until the first
reset outside the sessions (`after_reset_no_stale`). -/
theorem sync_block_txs_remain_witness :
    let st := run cfg ⟨view 3 0, Pool.empty⟩
      [.addExt t1 true, .addExt t2 true, .startSync, .setView (view 3 1), .stopSync [] (view 3 1) [1] ident]
    t1 ∈ st.pool.all ∧ Stale st.view t1 ∧ build cfg st.view st.pool.exec = some [t2] ∧
    (step cfg st (.reset [] (view 0 1) [1] ident)).pool.all = [t2] := by decide

end IdenaModel.Mempool
