import IdenaModel.Props.C03
import IdenaModel.Props.C03Flags
import IdenaModel.Props.C01Fee
/-!
# C03 — composition: what an accepted header says, with the concrete flag and fee-rate models plugged in

`validate_ok_iff` is parametric in the recomputation `exec`.  When the validator's recomputation derives the persistent
flags with `calcFlags` (M-Flags) — which is what `validateBlock` does through `calculateFlags` — and its state's fee rate was
produced by `nextFee` (M-FeeRate) from the previous block, an accepted header inherits the theorems of those models.
-/
namespace IdenaModel.BlockValidate
open IdenaModel.Flags IdenaModel.FeeRate

/-- the recomputation derives the flags with `calcFlags` from the inputs `inOf body time` of the block -/
def ExecUsesCalcFlags (c : Ctx) (cfg : Cfg) (s : St) (inOf : Nat → Nat → In) : Prop :=
  ∀ body key time off r, c.exec body key time off = some r → r.2.1 = flagsNat cfg s (inOf body time)

/-- **accepted_flags**: an accepted header carries exactly the recomputed flags, hence every statement of M-Flags about
them: e.g. `ValidationFinished` is there only in the after-long period with the completion rule satisfied and always
together with `IdentityUpdate`; a snapshot flag only in the None period. -/
theorem accepted_flags {c : Ctx} {h : Hdr} {body : Nat} {cfg : Cfg} {s : St} {inOf : Nat → Nat → In}
    (hex : ExecUsesCalcFlags c cfg s inOf) (hv : validateBlock c h body = .ok) :
    h .flags = flagsNat cfg s (inOf body (h .time)) ∧
    (transition cfg s (inOf body (h .time)) = fFinished →
      s.period = 4 ∧ canComplete s = true ∧ fIdentityUpdate ∈ calcFlags cfg s (inOf body (h .time))) ∧
    (fSnapshot ∈ calcFlags cfg s (inOf body (h .time)) → s.period = 0) := by
  obtain ⟨_, _, _, _, _, _, _, _, _, _, a11, _⟩ := (validate_ok_iff c h body).mp hv
  refine ⟨?_, ?_, ?_⟩
  · have := hex _ _ _ _ _ a11
    simpa using this
  · intro ht
    obtain ⟨h1, h2⟩ := finished_needs cfg s _ ht
    exact ⟨h1, h2, finished_has_identity_update cfg s _ ht⟩
  · intro hs
    exact (snapshot_needs cfg s _ hs).1

/-- **accepted_fee_rate**: when the validator's state fee rate is what the previous block left (`nextFee`), a header
that states a fee rate states one that is at or above the floor of the network size -/
theorem accepted_fee_rate {c : Ctx} {h : Hdr} {body : Nat} (prev usedGas maxGas kNum kScale n : Nat)
    (hstate : c.stateFee = nextFee prev usedGas maxGas kNum kScale n) (hv : validateBlock c h body = .ok)
    (hstated : h .feePerGas ≠ 0) : minFee n ≤ h .feePerGas ∧ 10 ≤ h .feePerGas := by
  obtain ⟨_, _, _, _, _, _, _, a8, _⟩ := (validate_ok_iff c h body).mp hv
  rcases a8 with h0 | h1
  · exact absurd h0 hstated
  · rw [h1, hstate]
    have := nextFee_ge_min prev usedGas maxGas kNum kScale n
    have := minFee_ge_10 n
    omega

end IdenaModel.BlockValidate
