import IdenaModel.Proofs.Registry
/-!
# C10 — the validator registry is consistent with the ledger and with its own rebuild

Part 1 (this section): the in-memory validator view maintained incrementally by `UpdateFromIdentityStateDiff`
is, for every getter, identical to the view a restarted / fast-synced node rebuilds with `loadValidNodes` from the
stored registry.

* `update_eq_load_diffWF` — the strongest form: for **every** stored registry `S` (well formed or not) and every diff
  whose non-deleted values satisfy `deleg ≠ none → validated`, `observe (update (load S) d) = observe (load (S ⊕ d))`.
* `update_eq_load` — the planned statement (`WFReg S → WFReg (S ⊕ d) → …`, diff keys distinct as `Precommit` emits them).
* `updates_eq_load` — any number of blocks: folding `update` over a list of diffs equals one rebuild at the end.
* `update_ne_load_nonWF` — the hypothesis cannot be dropped (finding candidate F7): a diff value that is online, not
  validated and carries a delegatee makes the two views differ.
* `rebuildSorted_perm` (Proofs), `forkCommitteeSize_perm`, `update_enum_irrelevant` (part 4) — the Go code enumerates
  hash sets / maps in three places; the result does not depend on the enumeration order.

Part 2: `wf_preserved` / `history_wf` / `history_cache_eq_rebuild` — the registry writes of block application
(`Ev`, one constructor per write site of blockchain.go) followed by `Commit(true)` keep the stored registry well formed
and emit well-formed diffs, so part 1 applies along every history; `guard_needed_*` show which checks outside the
registry this rests on.  Part 3: `registry_matches_ledger_partial` (validated flag and delegatee mirror the ledger),
with the full statement `registry_matches_ledger_statement` and the gap spelled out.
-/
namespace IdenaModel.Registry

/-- `WFReg`: an entry that carries a delegatee is validated -/
def WFReg (S : Reg) : Prop := ∀ a e, lookup S a = some e → e.deleg ≠ none → e.validated = true

/-- **C10 part 1, strongest form.**  For every stored registry and every well-formed diff, every getter of the
incrementally updated view answers exactly as the view rebuilt from the updated registry. -/
theorem update_eq_load_diffWF (S : Reg) (hs : RegSorted S) (d : Diff) (hwf : DiffWF d) :
    observe (update (load S) d) = observe (load (applyDiff S d)) :=
  update_obs_eq_load hs (load_inv hs) d hwf

/-- the nil-pool dereferences of `UpdateFromIdentityStateDiff` (validators.go:271, 310) are never reached -/
theorem update_no_panic (S : Reg) (hs : RegSorted S) (d : Diff) (hwf : DiffWF d) :
    (update (load S) d).panicked = false :=
  (update_inv (load_inv hs) d hwf).np

/-- any number of identity-update blocks: incremental maintenance over the whole history equals one rebuild at the end -/
theorem updates_eq_load (S : Reg) (hs : RegSorted S) (ds : List Diff) (hwf : ∀ d ∈ ds, DiffWF d) :
    observe (ds.foldl update (load S)) = observe (load (ds.foldl applyDiff S)) := by
  suffices H : ∀ (ds : List Diff) (c : Cache) (S : Reg), RegSorted S → Inv c (absOf S []) → (∀ d ∈ ds, DiffWF d) →
      observe c = observe (load S) →
      observe (ds.foldl update c) = observe (load (ds.foldl applyDiff S)) from
    H ds (load S) S hs (load_inv hs) hwf rfl
  intro ds
  induction ds with
  | nil => intro c S _ _ _ h; exact h
  | cons d t ih =>
    intro c S hs hc hwf _
    simp only [List.foldl_cons]
    exact ih (update c d) (applyDiff S d) (applyDiff_sorted hs d) (update_inv hc d (hwf d (by simp)))
      (fun d' hd' => hwf d' (List.mem_cons_of_mem _ hd')) (update_obs_eq_load hs hc d (hwf d (by simp)))

/-- with distinct keys, a diff leading to a well-formed registry is well formed -/
theorem diffWF_of_wfReg (S : Reg) (d : Diff) (hd : DiffNodup d) (h : WFReg (applyDiff S d)) : DiffWF d := by
  intro v hv hdel hdg
  have := lookup_applyDiff_of_mem d hd S v hv
  rw [hdel] at this
  exact h v.addr v.data (by simpa using this) hdg

/-- **C10 part 1 as planned** (`WFReg S` turns out not to be needed: see `update_eq_load_diffWF`). -/
theorem update_eq_load (S : Reg) (hs : RegSorted S) (d : Diff) (hd : DiffNodup d)
    (_hS : WFReg S) (hS' : WFReg (applyDiff S d)) :
    observe (update (load S) d) = observe (load (applyDiff S d)) :=
  update_eq_load_diffWF S hs d (diffWF_of_wfReg S d hd hS')

/-- the full statement without any well-formedness hypothesis -/
def update_eq_load_unconditional_statement : Prop :=
  ∀ (S : Reg) (d : Diff), RegSorted S → DiffNodup d → observe (update (load S) d) = observe (load (applyDiff S d))

/-- **F7: the hypothesis cannot be dropped.**  A diff value `{online, ¬validated, delegatee = 1}` for address 2:
`UpdateFromIdentityStateDiff` drops the delegation (validators.go:323-326), `loadValidNodes` keeps it
(validators.go:214-224); `IsPool(1)` and `Delegator(2)` differ. -/
theorem update_ne_load_nonWF : ¬ update_eq_load_unconditional_statement := by
  intro h
  have := h [] [{ addr := 2, deleted := false, data := ⟨false, true, false, some 1⟩ }] (by simp [RegSorted])
    (by simp [DiffNodup])
  have h2 := congrArg (fun o => o.isPool 1) this
  revert h2
  decide

/-- non-vacuity of `update_eq_load`: a well-formed registry with a pool (owner 5, delegators 2 and 7), a diff in
descending address order that removes delegator 7, discriminates delegator 2, deletes owner 5 and adds a new pool 9 ← 3. -/
example :
    let S : Reg := [(2, ⟨true, false, false, some 5⟩), (5, ⟨true, true, false, none⟩), (7, ⟨true, false, false, some 5⟩)]
    let d : Diff := [⟨9, false, ⟨false, true, false, none⟩⟩, ⟨7, true, Entry.zero⟩, ⟨5, true, Entry.zero⟩,
                     ⟨3, false, ⟨true, false, false, some 9⟩⟩, ⟨2, false, ⟨true, false, true, some 5⟩⟩]
    RegSorted S ∧ DiffNodup d ∧ WFReg S ∧ WFReg (applyDiff S d) ∧
    (update (load S) d).sorted = [3] ∧ (load (applyDiff S d)).sorted = [3] ∧
    (update (load S) d).isPool 5 = true ∧ (update (load S) d).isDiscriminated 5 = true := by
  refine ⟨by simp [RegSorted], by simp [DiffNodup], ?_, ?_, by decide, by decide, by decide, by decide⟩
  · intro a e h; revert h
    simp only [lookup_cons, lookup_nil]
    repeat (split; · intro h; cases h; simp)
    intro h; cases h
  · intro a e h
    have : applyDiff [(2, ⟨true, false, false, some 5⟩), (5, ⟨true, true, false, none⟩), (7, ⟨true, false, false, some 5⟩)]
        [⟨9, false, ⟨false, true, false, none⟩⟩, ⟨7, true, Entry.zero⟩, ⟨5, true, Entry.zero⟩,
         ⟨3, false, ⟨true, false, false, some 9⟩⟩, ⟨2, false, ⟨true, false, true, some 5⟩⟩] =
        [(2, ⟨true, false, true, some 5⟩), (3, ⟨true, false, false, some 9⟩), (9, ⟨false, true, false, none⟩)] := by decide
    rw [this] at h; revert h
    simp only [lookup_cons, lookup_nil]
    repeat (split; · intro h; cases h; simp)
    intro h; cases h

/-! ## Part 2: `WFReg` is an invariant of the registry writes of block application -/

/-- the stronger stored-registry invariant implies the hypothesis of `update_eq_load` -/
theorem wfReg_of_wfReg2 {S : Reg} (h : WFReg2 S) : WFReg S :=
  fun a e hl hd => entry_validated_of_j (h a e hl).1 (h a e hl).2 hd

/-- **`wf_preserved`.**  Start from a committed state whose registry is well formed (`WFReg2`: delegators offline, no
empty entry).  Apply the registry writes of one block — any number of kill / status-switch / offline / delegation /
undelegation / discrimination / epoch events, in any order, each under its guard — and `Commit(true)`.  Then the new
registry is well formed (`WFReg2`, hence `WFReg`), the emitted diff is well formed (`DiffWF`), has pairwise distinct
addresses in descending order, and the new tree is `old ⊕ diff`. -/
theorem wf_preserved {s : IdState} (hl : s.live = []) (hd : s.dirty = []) (ht : WFReg2 s.tree)
    (evs : List Ev) (hg : GuardsHold s evs) :
    WFReg2 (s.applyBlock evs).1.tree ∧ WFReg (s.applyBlock evs).1.tree ∧ DiffWF (s.applyBlock evs).2 ∧
    DiffNodup (s.applyBlock evs).2 ∧ (s.applyBlock evs).1.tree = applyDiff s.tree (s.applyBlock evs).2 := by
  have h := wf_preserved_block hl hd ht evs hg
  exact ⟨h.1, wfReg_of_wfReg2 h.1, h.2.1, precommitDiff_nodup _, h.2.2.2.2⟩

/-- a history: blocks of events, each committed -/
def runBlocks (s : IdState) : List (List Ev) → IdState × List Diff
  | [] => (s, [])
  | b :: t => ((runBlocks (s.applyBlock b).1 t).1, (s.applyBlock b).2 :: (runBlocks (s.applyBlock b).1 t).2)

def GuardsHoldAll : IdState → List (List Ev) → Prop
  | _, [] => True
  | s, b :: t => GuardsHold s b ∧ GuardsHoldAll (s.applyBlock b).1 t

instance decGuard (s : IdState) (e : Ev) : Decidable (e.guard s) := by
  cases e <;> simp only [Ev.guard] <;> infer_instance

instance decGuardsHold : (s : IdState) → (evs : List Ev) → Decidable (GuardsHold s evs)
  | _, [] => isTrue trivial
  | s, e :: t => by
    simp only [GuardsHold]
    exact @instDecidableAnd _ _ (decGuard s e) (decGuardsHold (s.applyEv e) t)

instance decGuardsHoldAll : (s : IdState) → (bs : List (List Ev)) → Decidable (GuardsHoldAll s bs)
  | _, [] => isTrue trivial
  | s, b :: t => by
    simp only [GuardsHoldAll]
    exact @instDecidableAnd _ _ (decGuardsHold s b) (decGuardsHoldAll (s.applyBlock b).1 t)

theorem history_wf {s : IdState} (hl : s.live = []) (hd : s.dirty = []) (ht : WFReg2 s.tree)
    (bs : List (List Ev)) (hg : GuardsHoldAll s bs) :
    WFReg2 (runBlocks s bs).1.tree ∧ (∀ d ∈ (runBlocks s bs).2, DiffWF d) ∧
    (runBlocks s bs).1.tree = (runBlocks s bs).2.foldl applyDiff s.tree := by
  induction bs generalizing s with
  | nil => exact ⟨ht, (fun d hd => by cases hd), rfl⟩
  | cons b t ih =>
    have h := wf_preserved_block hl hd ht b hg.1
    have h2 := ih h.2.2.1 h.2.2.2.1 h.1 hg.2
    refine ⟨h2.1, ?_, ?_⟩
    · intro d hd
      simp only [runBlocks, List.mem_cons] at hd
      rcases hd with e | m
      · subst e; exact h.2.1
      · exact h2.2.1 d m
    · simp only [runBlocks, List.foldl_cons]
      rw [h2.2.2, h.2.2.2.2]

/-- **C10 part 1 over whole histories**: from any well-formed stored registry, after any sequence of blocks of
registry writes (guards as stated in `Ev.guard`), the validator view maintained incrementally block by block answers
every getter like the view rebuilt from the stored registry at the end. -/
theorem history_cache_eq_rebuild {s : IdState} (hl : s.live = []) (hd : s.dirty = []) (ht : WFReg2 s.tree)
    (hs : RegSorted s.tree) (bs : List (List Ev)) (hg : GuardsHoldAll s bs) :
    observe ((runBlocks s bs).2.foldl update (load s.tree)) = observe (load (runBlocks s bs).1.tree) := by
  have h := history_wf hl hd ht bs hg
  rw [h.2.2]
  exact updates_eq_load s.tree hs _ h.2.1

/-- non-trivial concrete history: genesis with three validated identities (5 online); block 1: 2 and 7 delegate to 5;
block 2 (an epoch): 7 fails validation, 2 and 5 pass, 9 appears, 5 toggles offline; block 3: 2 is killed, so pool 5
disappears.  All guards hold, the registries are as computed, and the theorem applies. -/
example :
    let s0 : IdState := { tree := [(2, ⟨true, false, false, none⟩), (5, ⟨true, true, false, none⟩), (7, ⟨true, false, false, none⟩)] }
    let bs : List (List Ev) :=
      [[.delegate 2 5 false, .delegate 7 5 true],
       [.statusSwitch 5 true, .epochValidated 2 (some 5), .epochValidated 5 none, .epochNotValidated 7 false,
        .epochValidated 9 none, .discriminate 2 true],
       [.kill 2, .statusSwitch 9 false]]
    WFReg2 s0.tree ∧ RegSorted s0.tree ∧ GuardsHoldAll s0 bs ∧
    (runBlocks s0 bs).1.tree = [(5, ⟨true, false, false, none⟩), (9, ⟨true, true, false, none⟩)] ∧
    (runBlocks s0 bs).2 =
      [[⟨7, false, ⟨true, false, true, some 5⟩⟩, ⟨2, false, ⟨true, false, false, some 5⟩⟩],
       [⟨9, false, ⟨true, false, false, none⟩⟩, ⟨7, true, Entry.zero⟩, ⟨5, false, ⟨true, false, false, none⟩⟩,
        ⟨2, false, ⟨true, false, true, some 5⟩⟩],
       [⟨9, false, ⟨true, true, false, none⟩⟩, ⟨2, true, Entry.zero⟩]] := by
  refine ⟨?_, by simp [RegSorted], by decide, by decide, by decide⟩
  intro a e h; revert h
  simp only [lookup_cons, lookup_nil]
  repeat (split; · intro h; cases h; simp [EntryJ, Entry.isEmpty])
  intro h; cases h

/-- **the status-switch guard cannot be dropped**: if a delegator could queue a status switch (the check of
validation.go:561-564 missing), then an epoch in which it fails validation while being a pool stores
`{online, ¬validated, delegatee}` — a diff value outside `DiffWF`, exactly the shape of `update_ne_load_nonWF`. -/
theorem guard_needed_statusSwitch :
    ∃ (s : IdState) (evs : List Ev), s.live = [] ∧ s.dirty = [] ∧ WFReg2 s.tree ∧ ¬ DiffWF (s.applyBlock evs).2 := by
  refine ⟨{ tree := [(2, ⟨true, false, false, some 5⟩)] }, [.statusSwitch 2 false, .epochNotValidated 2 true], rfl, rfl, ?_, ?_⟩
  · intro a e h; revert h
    simp only [lookup_cons, lookup_nil]
    split
    · intro h; cases h; simp [EntryJ, Entry.isEmpty]
    · intro h; cases h
  · intro h
    have := h ⟨2, false, ⟨false, true, false, some 5⟩⟩ (by decide) rfl (by simp)
    cases this

/-- **the epoch guard cannot be dropped**: an online identity that the ledger records as a delegator -/
theorem guard_needed_epochValidated :
    ∃ (s : IdState) (evs : List Ev), s.live = [] ∧ s.dirty = [] ∧ WFReg2 s.tree ∧ ¬ WFReg2 (s.applyBlock evs).1.tree := by
  refine ⟨{ tree := [(2, ⟨true, true, false, none⟩)] }, [.epochValidated 2 (some 5)], rfl, rfl, ?_, ?_⟩
  · intro a e h; revert h
    simp only [lookup_cons, lookup_nil]
    split
    · intro h; cases h; simp [EntryJ, Entry.isEmpty]
    · intro h; cases h
  · intro h
    have := (h 2 ⟨true, true, false, some 5⟩ (by decide)).1 (by simp)
    cases this

/-! ## Part 3: the stored registry agrees with the identity ledger (registry-level model)

The ledger is reduced to what the registry mirrors: per identity, whether its status is Newbie/Verified/Human and the
delegatee `Identity.Delegatee()` reports.  A joint event performs the ledger change and the registry writes that
block application performs together. -/

structure LId where
  /-- `State ∈ {Newbie, Verified, Human}` -/
  validated : Bool
  /-- `Identity.Delegatee()` (state_object.go:631) -/
  delegatee : Option Nat
deriving DecidableEq, Repr

abbrev Ledger := List (Nat × LId)

def Ledger.get (L : Ledger) (a : Nat) : LId :=
  match lookup L a with
  | some i => i
  | none => ⟨false, none⟩

inductive JEv where
  /-- kill transactions: `SetState(Killed)` + `IdentityState.Remove` (blockchain.go:1572-1575, 1595-1601, 1620-1627) -/
  | kill (a : Nat)
  /-- accepted delegation: `IdentityState.SetDelegatee` + `State.SetDelegatee` (blockchain.go:1904, 1913) -/
  | delegate (a p : Nat) (discr : Bool)
  /-- undelegation: `IdentityState.RemoveDelegatee` + `State.RemoveDelegatee`/`SetPendingUndelegation` (:1877-1892) -/
  | undelegate (a : Nat) (discr : Bool) (pen : Bool)
  /-- `applyOnState` removes a transitive delegation in the ledger only (ceremony.go:972-988) -/
  | transitiveRemoval (a : Nat)
  /-- end of epoch for one identity: `applyOnState` sets the new status, `setNewIdentitiesAttributes` mirrors it -/
  | epochId (a : Nat) (newValidated : Bool) (isPool : Bool)
  /-- registry-only events (status switch, offline, discrimination) -/
  | reg (e : Ev)

def applyJ (w : IdState × Ledger) : JEv → IdState × Ledger
  | .kill a => (w.1.applyEv (.kill a), store w.2 a ⟨false, none⟩)
  | .delegate a p discr => (w.1.applyEv (.delegate a p discr), store w.2 a { w.2.get a with delegatee := some p })
  | .undelegate a discr pen => (w.1.applyEv (.undelegate a discr pen), store w.2 a { w.2.get a with delegatee := none })
  | .transitiveRemoval a => (w.1, store w.2 a { w.2.get a with delegatee := none })
  | .epochId a nv isPool =>
    (if nv then w.1.applyEv (.epochValidated a (w.2.get a).delegatee) else w.1.applyEv (.epochNotValidated a isPool),
     store w.2 a { w.2.get a with validated := nv })
  | .reg e => (w.1.applyEv e, w.2)

/-- side conditions that come from outside the registry:
* `reg` events are the three registry-only ones;
* the ledger-only transitive removal concerns an identity that is not validated yet (ceremony.go:972: previous status
  Suspended/Zombie/Candidate);
* an identity that becomes validated without a ledger delegatee carries no stale registry delegatee (on the chain: it
  had no stored entry, or it was validated before) -/
def JEv.guard (w : IdState × Ledger) : JEv → Prop
  | .reg e => (∃ a p, e = .statusSwitch a p) ∨ (∃ a, e = .offline a) ∨ (∃ a b, e = .discriminate a b)
  | .transitiveRemoval a => (w.1.current a).validated = false
  | .epochId a nv _ => nv = true → (w.2.get a).delegatee = none → (w.1.current a).validated = false →
      (w.1.current a).deleg = none
  | _ => True

/-- registry and ledger agree on the (uncommitted) state -/
def Match (w : IdState × Ledger) : Prop :=
  ∀ a, (w.1.current a).validated = (w.2.get a).validated ∧
       ((w.1.current a).validated = true → (w.1.current a).deleg = (w.2.get a).delegatee)

theorem Ledger.get_store (L : Ledger) (a : Nat) (i : LId) (x : Nat) :
    Ledger.get (store L a i) x = if x = a then i else L.get x := by
  by_cases hx : x = a
  · subst hx; simp [Ledger.get, lookup_store]
  · simp [Ledger.get, lookup_store, hx]

theorem match_applyJ {w : IdState × Ledger} (h : Match w) (e : JEv) (hg : e.guard w) : Match (applyJ w e) := by
  intro x
  have hx := h x
  cases e with
  | kill a =>
    simp only [applyJ, IdState.applyEv, IdState.remove, IdState.setValidated, IdState.setOnline, current_write,
      Ledger.get_store]
    split <;> simp_all
  | delegate a p discr =>
    simp only [applyJ, IdState.applyEv, IdState.setDelegatee, IdState.setDiscriminated, IdState.setOnline,
      current_write, Ledger.get_store]
    split <;> simp_all
  | undelegate a discr pen =>
    simp only [applyJ, IdState.applyEv, IdState.removeDelegatee, IdState.setDiscriminated, IdState.setOnline,
      Ledger.get_store]
    split <;> simp only [current_write] <;> split <;> simp_all
  | transitiveRemoval a =>
    have hv : (w.1.current a).validated = false := hg
    simp only [applyJ, Ledger.get_store]
    split
    · rename_i e; subst e; simp_all
    · exact hx
  | epochId a nv isPool =>
    have ha := h a
    cases nv with
    | false =>
      simp only [applyJ, Bool.false_eq_true, ↓reduceIte, IdState.applyEv, IdState.setValidated, IdState.setOnline,
        Ledger.get_store]
      split <;> simp only [current_write] <;> split <;> simp_all
    | true =>
      have hg' := hg rfl
      simp only [applyJ, ↓reduceIte, IdState.applyEv, IdState.setValidated, IdState.setDelegatee, Ledger.get_store]
      cases hd : (w.2.get a).delegatee with
      | none =>
        simp only [current_write]
        split
        · rename_i e; subst e
          simp only [true_and, forall_const]
          cases hv : (w.1.current x).validated with
          | true => rw [← hd]; exact ha.2 hv
          | false => rw [hg' hd hv]
        · exact hx
      | some p =>
        simp only [current_write]
        split <;> simp_all
  | reg e =>
    rcases hg with ⟨a, p, rfl⟩ | ⟨a, rfl⟩ | ⟨a, b, rfl⟩
    · simp only [applyJ, IdState.applyEv, IdState.setOnline]
      split
      · rw [current_write]; split <;> simp_all
      · split
        · rw [current_write]; split <;> simp_all
        · exact hx
    · simp only [applyJ, IdState.applyEv, IdState.setOnline, current_write]; split <;> simp_all
    · simp only [applyJ, IdState.applyEv, IdState.setDiscriminated, current_write]; split <;> simp_all


def JGuardsHold : IdState × Ledger → List JEv → Prop
  | _, [] => True
  | w, e :: t => e.guard w ∧ JGuardsHold (applyJ w e) t

theorem liveOK_applyJ {w : IdState × Ledger} (h : LiveOK w.1) (e : JEv) : LiveOK (applyJ w e).1 := by
  cases e with
  | kill a => exact h.applyEv _
  | delegate a p discr => exact h.applyEv _
  | undelegate a discr pen => exact h.applyEv _
  | transitiveRemoval a => exact h
  | epochId a nv isPool =>
    simp only [applyJ]; split
    · exact h.applyEv _
    · exact h.applyEv _
  | reg e => exact h.applyEv _

theorem match_applyJs {w : IdState × Ledger} (evs : List JEv) (h : Match w) (hl : LiveOK w.1) (hg : JGuardsHold w evs) :
    Match (evs.foldl applyJ w) ∧ LiveOK (evs.foldl applyJ w).1 := by
  induction evs generalizing w with
  | nil => exact ⟨h, hl⟩
  | cons e t ih => exact ih (match_applyJ h e hg.1) (liveOK_applyJ hl e) hg.2

/-- `current` of the committed state in terms of the uncommitted one -/
theorem lookup_commit_current {s : IdState} (hl : LiveOK s) (a : Nat) :
    (lookup s.commit.1.tree a = if (s.current a).isEmpty then none else some (s.current a)) ∨
    (a ∉ s.dirty ∧ lookup s.commit.1.tree a = lookup s.tree a ∧
      s.current a = match lookup s.tree a with | some e => e | none => Entry.zero) := by
  rw [lookup_commit]
  by_cases ha : a ∈ s.dirty
  · left; simp [ha]
  · right
    refine ⟨ha, by simp [ha], ?_⟩
    simp only [IdState.current, hl a ha]; rfl

/-- the full statement of the registry/ledger part for a reachable pair (ledger `L`, stored registry `S`, validator
view `c` of the same block) -/
def registry_matches_ledger_statement (L : Ledger) (S : Reg) (c : Cache) : Prop :=
  ∀ a, (rval S a = (L.get a).validated) ∧ (rval S a = true → rdg S a = (L.get a).delegatee) ∧
       (ronl S a = true → rval S a = true ∨ c.isPool a = true)

/-- **`registry_matches_ledger`, the part a registry-level model carries.**  From a committed state in which registry
and ledger agree, after the joint events of one block (each under its guard) and `Commit(true)`:
an address is stored as validated exactly when the ledger status is Newbie/Verified/Human, and the stored delegatee of
a validated address is the ledger's.

Not covered here (third conjunct of `registry_matches_ledger_statement`, "only validated identities or pools are
online"): it depends on which addresses block application *chooses* to switch offline (`switchPoolsToOffline` from the
validator view, `validationResult.Pools` from the ledger at the end of an epoch), i.e. on the ledger model and the
event scheduling, and is left to the history-level correspondence.  What the registry alone guarantees is
`online_not_delegator` below. -/
theorem registry_matches_ledger_partial {w : IdState × Ledger} (hl : w.1.live = []) (hm : Match w)
    (evs : List JEv) (hg : JGuardsHold w evs) :
    let w' := evs.foldl applyJ w
    ∀ a, rval w'.1.commit.1.tree a = (w'.2.get a).validated ∧
         (rval w'.1.commit.1.tree a = true → rdg w'.1.commit.1.tree a = (w'.2.get a).delegatee) := by
  intro w' a
  have hlive : LiveOK w.1 := by intro x _; simp [hl]
  have h := match_applyJs evs hm hlive hg
  have hma := h.1 a
  rcases lookup_commit_current h.2 a with hc | ⟨_, hc, hcur⟩
  · simp only [rval, rdg]
    change lookup w'.1.commit.1.tree a = _ at hc
    rw [hc]
    cases hemp : (w'.1.current a).isEmpty with
    | true =>
      have hv : (w'.1.current a).validated = false := by
        simp only [Entry.isEmpty] at hemp
        cases hvv : (w'.1.current a).validated <;> simp_all
      simp only [↓reduceIte]
      exact ⟨by rw [← hma.1]; exact hv.symm, by intro hh; cases hh⟩
    | false =>
      simp only [Bool.false_eq_true, ↓reduceIte]
      exact ⟨hma.1, hma.2⟩
  · simp only [rval, rdg]
    change lookup w'.1.commit.1.tree a = _ at hc
    change w'.1.current a = _ at hcur
    rw [hc]
    cases ht : lookup w'.1.tree a with
    | none =>
      rw [ht] at hcur
      simp only
      rw [hcur] at hma
      exact ⟨hma.1, by intro hh; cases hh⟩
    | some e =>
      rw [ht] at hcur
      simp only
      rw [hcur] at hma
      exact hma

/-- what the stored registry alone guarantees about the online flag: an online address is not a delegator -/
theorem online_not_delegator {S : Reg} (h : WFReg2 S) (a : Nat) (ho : ronl S a = true) : rdg S a = none := by
  simp only [ronl, rdg] at ho ⊢
  cases hl : lookup S a with
  | none => rfl
  | some e =>
    rw [hl] at ho
    simp only at ho ⊢
    cases hd : e.deleg with
    | none => rfl
    | some p =>
      have := (h a e hl).1 (by simp [hd])
      rw [ho] at this; cases this

/-- non-vacuity of `registry_matches_ledger_partial`: genesis (2, 5, 7 validated), one block: 2 delegates to 5, 7 is
killed, an epoch validates the newcomer 9 and invalidates 5 (which stays online as a pool). -/
example :
    let w : IdState × Ledger :=
      ({ tree := [(2, ⟨true, false, false, none⟩), (5, ⟨true, true, false, none⟩), (7, ⟨true, false, false, none⟩)] },
       [(2, ⟨true, none⟩), (5, ⟨true, none⟩), (7, ⟨true, none⟩)])
    let evs : List JEv := [.delegate 2 5 false, .kill 7, .epochId 9 true false, .epochId 5 false true, .epochId 2 true false]
    (evs.foldl applyJ w).1.commit.1.tree =
      [(2, ⟨true, false, false, some 5⟩), (5, ⟨false, true, false, none⟩), (9, ⟨true, false, false, none⟩)] ∧
    ((evs.foldl applyJ w).2.get 2).delegatee = some 5 ∧ ((evs.foldl applyJ w).2.get 5).validated = false := by
  decide

/-- **the delegatee rewrite of the epoch pass is not redundant** (blockchain.go:868-870, 876-878).  An identity that is
not validated has no stored entry (it is empty and deleted on commit) while the ledger keeps its delegatee; if the epoch
pass only set the validated flag (`epochValidated a none` although the ledger holds `some 5`), registry and ledger would
disagree on the delegatee of a validated identity. -/
theorem epoch_delegatee_rewrite_needed :
    ∃ (w : IdState × Ledger) (a : Nat), w.1.live = [] ∧ Match w ∧
      ¬ Match (w.1.applyEv (.epochValidated a none), store w.2 a { w.2.get a with validated := true }) := by
  refine ⟨({}, [(2, ⟨false, some 5⟩)]), 2, rfl, ?_, ?_⟩
  · intro x
    by_cases hx : x = 2
    · subst hx; decide
    · have h1 : lookup ([(2, (⟨false, some 5⟩ : LId))] : Ledger) x = none := by
        simp only [lookup_cons, lookup_nil]; rw [if_neg (fun h => hx h.symm)]
      simp [IdState.current, Ledger.get, h1, Entry.zero]
  · intro h
    have := (h 2).2 (by decide)
    revert this
    decide

/-! ## Part 4: the Go code enumerates hash sets and maps; the order is irrelevant -/

/-- `buildForkCommittee` (validators.go:131) walks `onlineAddresses.Each`: any enumeration gives the same count -/
theorem forkCommitteeSize_perm (c : Cache) (l : List Nat) (h : l.Perm c.online) :
    l.countP (fun a =>
      match lookup c.pools a with
      | some pl => !pl.discriminated
      | none => !decide (a ∈ c.discr)) = c.forkCommitteeSize :=
  h.countP_eq _

/-- `UpdateFromIdentityStateDiff` with the `newApprovals` map walked in the order `enumA` and the online set in the
order `enumO` (validators.go:338 `range newApprovals`, :346 `onlineAddresses.ToSlice()`) -/
def updateVia (c : Cache) (d : Diff) (enumA : List (Nat × Bool) → List (Nat × Bool)) (enumO : List Nat → List Nat) : Cache :=
  let st := d.foldl updStep (c, [])
  let c' := applyApprovals st.1 (enumA st.2)
  { c' with sorted := rebuildSorted c' (enumO c'.online) }

theorem update_enum_irrelevant_inv {c : Cache} {S : Reg} (h : Inv c (absOf S [])) (d : Diff) (hwf : DiffWF d)
    (enumA : List (Nat × Bool) → List (Nat × Bool)) (enumO : List Nat → List Nat)
    (hA : ∀ l, (enumA l).Perm l) (hO : ∀ l, (enumO l).Perm l) :
    observe (updateVia c d enumA enumO) = observe (update c d) := by
  apply observe_eq
  have hf := updFold_inv d h (by intro pb hpb; cases hpb) hwf
  have h₁ := applyApprovals_inv (enumA (d.foldl updStep (c, [])).2) hf.1
    (by
      intro x hx
      obtain ⟨b, hb⟩ := mem_of_lookup_isSome _ x hx
      exact ⟨b, (hA _).mem_iff.mpr hb⟩)
    (fun pb hpb => hf.2 pb ((hA _).mem_iff.mp hpb)) (fun x => rfl)
  have h₂ := updateCore_inv h d hwf
  exact cacheEq_of_inv h₁ h₂ (fun _ => rfl) _ _ (fun x => (hO _).mem_iff) (fun _ => Iff.rfl)

/-- **map/set iteration order does not matter**: whatever order Go's runtime picks for `range newApprovals` and for
`onlineAddresses.ToSlice()`, every getter answers the same -/
theorem update_enum_irrelevant (S : Reg) (hs : RegSorted S) (d : Diff) (hwf : DiffWF d)
    (enumA : List (Nat × Bool) → List (Nat × Bool)) (enumO : List Nat → List Nat)
    (hA : ∀ l, (enumA l).Perm l) (hO : ∀ l, (enumO l).Perm l) :
    observe (updateVia (load S) d enumA enumO) = observe (update (load S) d) :=
  update_enum_irrelevant_inv (load_inv hs) d hwf enumA enumO hA hO

/-- the hypotheses are satisfiable by a non-trivial reordering -/
example : (∀ l : List (Nat × Bool), l.reverse.Perm l) ∧ (∀ l : List Nat, l.reverse.Perm l) :=
  ⟨fun l => List.reverse_perm l, fun l => List.reverse_perm l⟩

end IdenaModel.Registry
