import IdenaModel.Model.Chain
/-!
# C06 — no transaction is applied twice; nonces advance strictly per epoch (chain level)

For every chain the model accepts from genesis (any interleaving of transactions and epoch changes):
`chain_nonces` (each sender's nonces within an epoch are exactly 1,2,…,k in order),
`no_dup` (no transaction occurs twice), `foreign_epoch_never_applied`, and `replay_rejected`
(an included transaction is refused — by the application rule *and* by the validation clauses — in every
later state of the chain, also across epoch changes).
-/
namespace IdenaModel.Chain

/-- invariant linking the state to the transactions applied so far -/
structure Inv (s : CState) (l : List ATx) : Prop where
  acctLe : ∀ a, (s.accts a).epoch ≤ s.epoch
  seq : ∀ a e, noncesOf a e l = List.range' 1 (noncesOf a e l).length
  cur : ∀ a, (noncesOf a s.epoch l).length = curNonce s a
  future : ∀ a e, s.epoch < e → noncesOf a e l = []
  past : ∀ t ∈ l, t.epoch ≤ s.epoch ∧
    (t.epoch = s.epoch → (s.accts t.sender).epoch = s.epoch ∧ t.nonce ≤ (s.accts t.sender).nonce)

theorem inv_genesis : Inv genesis [] where
  acctLe := by intro a; simp [genesis]
  seq := by intro a e; simp [noncesOf]
  cur := by intro a; simp [noncesOf, curNonce, genesis]
  future := by intro a e _; simp [noncesOf]
  past := by intro t ht; simp at ht

theorem noncesOf_append (a e : Nat) (l : List ATx) (t : ATx) :
    noncesOf a e (l ++ [t]) = if t.sender = a ∧ t.epoch = e then noncesOf a e l ++ [t.nonce] else noncesOf a e l := by
  unfold noncesOf
  by_cases h : t.sender = a ∧ t.epoch = e <;> simp [List.filter_append, h]

theorem range'_succ_append (n : Nat) : List.range' 1 (n + 1) = List.range' 1 n ++ [n + 1] := by
  rw [List.range'_1_concat]; simp [Nat.add_comm]

theorem inv_applyTx {s s' : CState} {l : List ATx} {t : ATx} (h : Inv s l) (ha : applyTx s t = some s') :
    Inv s' (l ++ [t]) := by
  unfold applyTx at ha
  split at ha
  next hc =>
    obtain ⟨he, hn⟩ := hc
    injection ha with ha; subst ha
    refine ⟨?_, ?_, ?_, ?_, ?_⟩
    · intro a; simp only; split
      · simp [he]
      · exact h.acctLe a
    · intro a e
      rw [noncesOf_append]
      split
      next hae =>
        obtain ⟨rfl, rfl⟩ := hae
        rw [List.length_append, List.length_singleton, range'_succ_append, ← h.seq]
        congr 2
        rw [he, h.cur, hn]
      next => exact h.seq a e
    · intro a
      simp only [noncesOf_append]
      split
      next hae =>
        obtain ⟨rfl, _⟩ := hae
        simp [curNonce, he, h.cur, hn]
      next hae =>
        rw [h.cur]
        by_cases e : a = t.sender
        · subst e; simp [he] at hae
        · simp [curNonce, e]
    · intro a e hlt
      rw [noncesOf_append]
      split
      next hae => simp only at hlt; omega
      next => exact h.future a e hlt
    · intro u hu
      simp only
      rcases List.mem_append.mp hu with hu | hu
      · have := h.past u hu
        refine ⟨this.1, fun heq => ?_⟩
        by_cases e : u.sender = t.sender
        · simp only [e, if_true]
          have h2 := this.2 heq
          have : curNonce s t.sender = (s.accts t.sender).nonce := by
            simp [curNonce, ← e, h2.1]
          rw [e] at h2
          omega
        · simp [e, this.2 heq]
      · simp at hu; subst hu
        exact ⟨by omega, fun _ => by simp [he]⟩
  next => simp at ha

theorem inv_newEpoch {s : CState} {l : List ATx} (h : Inv s l) : Inv { s with epoch := s.epoch + 1 } l where
  acctLe := by intro a; have := h.acctLe a; simp; omega
  seq := h.seq
  cur := by
    intro a
    have := h.acctLe a
    simp [curNonce, h.future a (s.epoch + 1) (by omega)]
    omega
  future := by intro a e hlt; exact h.future a e (by simp at hlt; omega)
  past := by
    intro t ht
    have := (h.past t ht).1
    exact ⟨by simp; omega, fun heq => by simp at heq; omega⟩

/-- dust clearing at the epoch change keeps the invariant: the cleared nonce records belong to an epoch that is over -/
theorem inv_clearEpoch {s : CState} {l : List ATx} (h : Inv s l) (d : List Nat) :
    Inv { epoch := s.epoch + 1, accts := fun a => if a ∈ d then ⟨0, 0⟩ else s.accts a } l where
  acctLe := by
    intro a; have := h.acctLe a
    simp only
    split <;> simp <;> omega
  seq := h.seq
  cur := by
    intro a
    have := h.acctLe a
    simp only [curNonce, h.future a (s.epoch + 1) (by omega)]
    split <;> simp <;> omega
  future := by intro a e hlt; exact h.future a e (by simp at hlt; omega)
  past := by
    intro t ht
    have := (h.past t ht).1
    exact ⟨by simp; omega, fun heq => by simp at heq; omega⟩

theorem txsOf_app (a b : List Ev) : txsOf (a ++ b) = txsOf a ++ txsOf b := by
  induction a with
  | nil => rfl
  | cons x xs ih => cases x <;> simp [txsOf, ih]

/-- the invariant is preserved along any accepted continuation -/
theorem inv_run_gen {es : List Ev} {s s' : CState} {l : List ATx} (h : Inv s l) (hr : run s es = some s') :
    Inv s' (l ++ txsOf es) := by
  induction es generalizing s l with
  | nil => simp [run] at hr; subst hr; simpa [txsOf] using h
  | cons e es ih =>
    simp only [run] at hr
    cases hs : step s e with
    | none => simp [hs] at hr
    | some s₁ =>
      simp only [hs] at hr
      cases e with
      | tx t =>
        have := ih (inv_applyTx h hs) hr
        simpa [txsOf] using this
      | newEpoch =>
        simp [step] at hs; subst hs
        simpa [txsOf] using ih (inv_newEpoch h) hr
      | clearEpoch d =>
        simp [step] at hs; subst hs
        simpa [txsOf] using ih (inv_clearEpoch h d) hr

/-- every accepted chain satisfies the invariant -/
theorem inv_run {es : List Ev} {s : CState} (h : run genesis es = some s) : Inv s (txsOf es) := by
  simpa using inv_run_gen inv_genesis h

/-- **C06 (1)** on any accepted chain, each sender's nonces within an epoch are `1, 2, …, k`, in order. -/
theorem chain_nonces {es : List Ev} {s : CState} (h : run genesis es = some s) (a e : Nat) :
    noncesOf a e (txsOf es) = List.range' 1 (noncesOf a e (txsOf es)).length :=
  (inv_run h).seq a e

/-- **C06 (2)** a transaction signed for another epoch is never applied -/
theorem foreign_epoch_never_applied (s : CState) (t : ATx) (h : t.epoch ≠ s.epoch) : applyTx s t = none := by
  simp [applyTx, h]

/-- an already applied transaction is refused in the state reached -/
theorem applied_rejected {s : CState} {l : List ATx} (h : Inv s l) {t : ATx} (ht : t ∈ l) :
    applyTx s t = none ∧ validateOk s t = false := by
  have hp := h.past t ht
  constructor
  · unfold applyTx
    split
    next hc =>
      have h2 := hp.2 hc.1
      have : curNonce s t.sender = (s.accts t.sender).nonce := by simp [curNonce, h2.1]
      omega
    next => rfl
  · unfold validateOk
    by_cases he : t.epoch = s.epoch
    · have h2 := hp.2 he
      simp [he, h2.1, h2.2]
    · have : s.epoch > t.epoch := by omega
      simp [this]

/-- **C06 (3)** re-submitting an included transaction — in the same or a later block, after any further
transactions and epoch changes — is rejected, both by the application rule and by the validation clauses. -/
theorem replay_rejected {es es' : List Ev} {s : CState} (h : run genesis (es ++ es') = some s)
    {t : ATx} (ht : t ∈ txsOf es) : applyTx s t = none ∧ validateOk s t = false := by
  have hi := inv_run h
  apply applied_rejected hi
  rw [txsOf_app]; exact List.mem_append_left _ ht

def key (t : ATx) : Nat × Nat × Nat := (t.sender, t.epoch, t.nonce)

theorem applyTx_congr_key (s : CState) {t u : ATx} (h : key t = key u) :
    (applyTx s t).isSome = (applyTx s u).isSome := by
  simp only [key, Prod.mk.injEq] at h
  simp only [applyTx, h.1, h.2.1, h.2.2]

theorem no_dup_gen {es : List Ev} {s s' : CState} {l : List ATx} (h : Inv s l) (hn : (l.map key).Nodup)
    (hr : run s es = some s') : ((l ++ txsOf es).map key).Nodup := by
  induction es generalizing s l with
  | nil => simpa [txsOf] using hn
  | cons e es ih =>
    simp only [run] at hr
    cases hs : step s e with
    | none => simp [hs] at hr
    | some s₁ =>
      simp only [hs] at hr
      cases e with
      | newEpoch =>
        simp [step] at hs; subst hs
        simpa [txsOf] using ih (inv_newEpoch h) hn hr
      | clearEpoch d =>
        simp [step] at hs; subst hs
        simpa [txsOf] using ih (inv_clearEpoch h d) hn hr
      | tx t =>
        have hn' : ((l ++ [t]).map key).Nodup := by
          simp only [List.map_append, List.map_cons, List.map_nil]
          rw [List.nodup_append]
          refine ⟨hn, by simp, ?_⟩
          intro x hx y hy
          simp at hy; subst hy
          obtain ⟨u, hu, rfl⟩ := List.mem_map.mp hx
          intro heq
          have hrej := (applied_rejected h hu).1
          have := applyTx_congr_key s heq
          simp [step] at hs
          simp [hrej, hs] at this
        have := ih (inv_applyTx h hs) hn' hr
        simpa [txsOf] using this

/-- **C06 (4)** no transaction occurs twice on an accepted chain (even up to `tag`: the triple
(sender, epoch, nonce) is never reused). -/
theorem no_dup {es : List Ev} {s : CState} (h : run genesis es = some s) :
    ((txsOf es).map key).Nodup := by
  simpa using no_dup_gen inv_genesis (by simp) h

/-- non-vacuity: a chain with two senders, an epoch change, and nonces restarting at 1 is accepted -/
example : (run genesis [.tx ⟨1, 0, 1, 0⟩, .tx ⟨2, 0, 1, 0⟩, .tx ⟨1, 0, 2, 0⟩, .newEpoch, .tx ⟨1, 1, 1, 0⟩]).isSome = true := by
  simp [run, step, applyTx, curNonce, genesis]

/-- a chain with a dust clearing at the epoch change: the cleared sender starts again at nonce 1 in the new epoch and
its old transaction stays refused -/
example : (run genesis [.tx ⟨1, 0, 1, 0⟩, .clearEpoch [1], .tx ⟨1, 1, 1, 0⟩]).isSome = true ∧
    ((run genesis [.tx ⟨1, 0, 1, 0⟩, .clearEpoch [1]]).bind (fun s => applyTx s ⟨1, 0, 1, 0⟩)).isNone = true := by
  simp [run, step, applyTx, curNonce, genesis]

/-- **clear_mid_epoch_allows_replay**: the same clearing WITHOUT the epoch change (a dust clearing on a snapshot block, or
an epoch that is not incremented after a failed validation) makes an included transaction applicable again — the epoch
number is the only guard once the nonce record is gone (seeded changes C06-s3 / C06-s4). -/
theorem clear_mid_epoch_allows_replay :
    ∃ (es : List Ev) (s : CState) (t : ATx), run genesis es = some s ∧ t ∈ txsOf es ∧
      (applyTx (clearNow s [t.sender]) t).isSome = true :=
  ⟨[.tx ⟨1, 0, 1, 0⟩], _, ⟨1, 0, 1, 0⟩, rfl, by simp [txsOf], by simp [applyTx, clearNow, curNonce, step, genesis]⟩

end IdenaModel.Chain
