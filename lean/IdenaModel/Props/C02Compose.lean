import IdenaModel.Props.C03
import IdenaModel.Model.ProposeHeader
/-!
# C02 — composition at header level: the header `ProposeBlock` fills in passes `validateBlock`

`ProposeBlock` (blockchain.go:1989) fills every derived header field by calling the functions `validateBlock` recomputes
them with.  With M-BlockValidate's context `Ctx` standing for "a correct node on this head" (same head and state: the same
recomputation functions — that both nodes' functions agree is C01; that the kept transaction list applies on a fresh state is
`propose_accepted` of `Props/C02.lean`), the proposer's header is accepted by every such node **iff** the proposer's clock is not
more than `MaxFutureBlockOffset` ahead of the validator's: the clock is the only thing two correct nodes on one head do not share.
-/
namespace IdenaModel.BlockValidate

/-- what makes the proposer a correct, entitled one on this head -/
structure Honest (c : Ctx) (ch : Choice) (ex : Nat × Nat × Nat × Nat × Nat) : Prop where
  keyValid : c.keyValid ch.key = true
  eligible : c.eligible ch.key = true
  vrf : c.vrf ch.key ch.proof = some ch.seed           -- VrfEvaluate's proof verifies to its output
  upgradeOk : c.upgradeOk ch.upgrade = true
  exec : c.exec ch.body ch.key (proposeTime c ch.nowP) ch.offline = some ex   -- same state, same functions (C01, `propose_accepted`)

theorem proposeTime_not_early (c : Ctx) (nowP : Nat) : c.prevTime + c.minDelay ≤ proposeTime c nowP := by
  unfold proposeTime; split <;> omega

/-- **honest_header_accepted_iff**: a correct validator on the same head accepts the header exactly when the proposed
time is not beyond its own clock plus the tolerance -/
theorem honest_header_accepted_iff (c : Ctx) (ch : Choice) (ex : Nat × Nat × Nat × Nat × Nat) (hh : Honest c ch ex) :
    validateBlock c (proposeHeader c ch ex) ch.body = .ok ↔ proposeTime c ch.nowP ≤ c.now + c.maxFuture := by
  rw [validate_ok_iff]
  obtain ⟨bloom, flags, root, iroot, rcid⟩ := ex
  constructor
  · rintro ⟨_, _, h3, _⟩; exact h3
  · intro h3
    exact ⟨rfl, rfl, h3, proposeTime_not_early c ch.nowP, hh.keyValid, hh.vrf, hh.upgradeOk, Or.inr rfl, hh.eligible, rfl,
      hh.exec, rfl⟩

/-- **honest_header_accepted**: clocks within the tolerance (the validator's clock is at most `maxFuture` behind the
proposer's, and the head is not itself from the future by more than `maxFuture − minDelay`) ⇒ accepted -/
theorem honest_header_accepted (c : Ctx) (ch : Choice) (ex : Nat × Nat × Nat × Nat × Nat) (hh : Honest c ch ex)
    (hclock : ch.nowP ≤ c.now + c.maxFuture) (hhead : c.prevTime + c.minDelay ≤ c.now + c.maxFuture) :
    validateBlock c (proposeHeader c ch ex) ch.body = .ok := by
  rw [honest_header_accepted_iff c ch ex hh]
  unfold proposeTime; split <;> omega

/-- the only refusal an honest proposal can meet on a correct node with the same head names the time field -/
theorem honest_header_refused_only_for_time (c : Ctx) (ch : Choice) (ex : Nat × Nat × Nat × Nat × Nat) (hh : Honest c ch ex)
    (hr : validateBlock c (proposeHeader c ch ex) ch.body ≠ .ok) :
    validateBlock c (proposeHeader c ch ex) ch.body = .err (some .time) := by
  have hlate : ¬ proposeTime c ch.nowP ≤ c.now + c.maxFuture := fun h => hr ((honest_header_accepted_iff c ch ex hh).mpr h)
  unfold validateBlock
  simp only [proposeHeader, chk, beq_self_eq_true, if_true]
  simp [hlate]

/-- premises satisfiable, and the clock clause is not idle: the same proposal is refused by a validator whose clock is far behind -/
def demoCtx (now : Nat) : Ctx :=
  { prevHash := 7, prevHeight := 4, prevTime := 100, now := now, minDelay := 10, maxFuture := 120, stateFee := 3,
    eligible := fun k => k == 1, keyValid := fun _ => true, vrf := fun k p => if k == 1 && p == 5 then some 9 else none,
    upgradeOk := fun _ => true, txHashOf := fun b => b + 1, cidOf := fun b => b + 2,
    exec := fun _ _ _ _ => some (1, 2, 3, 4, 5) }
def demoChoice : Choice := { key := 1, proof := 5, seed := 9, offline := 0, upgrade := 0, body := 11, nowP := 300 }

example : validateBlock (demoCtx 290) (proposeHeader (demoCtx 290) demoChoice (1, 2, 3, 4, 5)) demoChoice.body = .ok := by decide
example : validateBlock (demoCtx 100) (proposeHeader (demoCtx 100) demoChoice (1, 2, 3, 4, 5)) demoChoice.body = .err (some .time) := by
  decide
example : Honest (demoCtx 290) demoChoice (1, 2, 3, 4, 5) := ⟨rfl, rfl, rfl, rfl, rfl⟩

end IdenaModel.BlockValidate
