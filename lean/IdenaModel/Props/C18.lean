import IdenaModel.Proofs.ProtoWire
import IdenaModel.Proofs.CodecTable
import IdenaModel.Model.CodecObjects
import IdenaModel.Proofs.RecordCodec
/-!
# C18 — wire and storage encodings round-trip; signatures bind every signed field

Property (fixed text, `/verif/properties.jsonl`): every consensus and storage object decodes from its own encoding to a
semantically equal object and re-encodes to identical bytes; changing any field covered by a signature changes the
recovered signer or invalidates the signature; every field that influences behaviour is part of the encoding.

What is proved here (all messages of all sizes and nesting depths, by induction; no enumeration):

* `varint_roundtrip`, `varint_u64_size` — the base-128 varint codec.
* `wire_roundtrip` — `decode (encode m) = some (normal form of m)` for every schema-conforming message;
  `decoded_wf` — the result is again well-formed (field-number order, singular fields at most once).
* `encode_canonical` — re-encoding what was decoded gives identical bytes (so hashes over encodings are stable).
* `encode_injective` — equal bytes ⇒ equal normal forms (for one schema).
* `sig_binds`, `sig_binds_fields`, `norm_eq_fields` — equal signature hashes ⇒ equal signed messages ⇒ every signed
  proto field equal, under the explicit hypothesis that the hash is injective (Keccak-256 idealised; trusted base).
* `tx_sig_binds`, `vote_sig_binds` — the same at the level of the Go fields of `Transaction` / `Vote` (including the
  big-integer, optional-address and fixed-array conversions); `tx_hash_binds`, `proposed_hash_binds`,
  `empty_hash_binds` — the object hashes (`types.go:823, :683, :701`) bind every field of the transaction / block
  header.  The Lean message builders (`Model/CodecObjects.lean`) are compared byte for byte against the real
  `ToSignatureBytes` / `ToProto`+`Marshal` on every run (driver ops `txsig`, `txfull`, `votesig`, `phdr`, `ehdr`), and
  their schemas against the regenerated descriptors.
* `conv_*` — the value conversions round-trip on their stated domains (`0 ≤ x` for big integers: the sign is not
  representable, `conv_big_sign_lost`, `tx_sig_negative_amount_collides`).
* `codec_covers`, `sig_covers`, `uncovered_field_breaks` — the obligation on the field table regenerated from the
  current Go source: every struct field of every encodable type is mapped in both directions through a common
  proto field (and, for signed objects, into the signature message) or is on the committed allow-list.

Not proved, left to the differential harness (stated gap of DESIGN's `codec_roundtrip`): that each hand-written
`ToProto/FromProto` body computes exactly the conversion its field needs; this is checked per field and per value
class against the real code (reflection-driven round trips, distinguishing values), not derived from the source.
-/
namespace IdenaModel.C18
open IdenaModel.ProtoWire IdenaModel.Codec

/-! ## varint -/

/-- **varint_roundtrip** — for every natural number (in particular every `uint64`), followed by anything -/
theorem varint_roundtrip (n : Nat) (rest : Bytes) : readVarint (varint n ++ rest) = some (n, rest) :=
  readVarint_varint n rest

/-- a `uint64` takes at most 10 bytes, all of them bytes (the decoder's 10-byte limit is never hit by encoder output) -/
theorem varint_u64_size (n : Nat) (h : n < 2 ^ 64) : (varint n).length ≤ 10 ∧ ∀ b ∈ varint n, b < 256 :=
  ⟨varint_length_u64 n h, varint_bytes n⟩

/-! ## round trip, canonical form, injectivity -/

/-- **wire_roundtrip** — decoding the encoding of a conforming message yields its normal form (= the message
itself when it carries no default-valued singular field), for every nesting depth below the decoder's bound `d`. -/
theorem wire_roundtrip (s : Schema) (m : Msg) (d : Nat) (hc : confMsg s m = true) (hd : depthMsg m < d) :
    decode d s (encode s m) = some (normMsg s m) := by
  unfold decode encode
  exact decMsg_encMsg_of_lt (confMsg_norm s m hc) (Nat.lt_of_le_of_lt (depthMsg_norm s m) hd)

/-- what the decoder returns is again well-formed: conforming, in field-number order, singular fields at most once -/
theorem decoded_wf (s : Schema) (m m' : Msg) (d : Nat) (hw : wfMsg s m = true) (hd : depthMsg m < d)
    (h : decode d s (encode s m) = some m') : wfMsg s m' = true := by
  have hw' := hw
  simp only [wfMsg, Bool.and_eq_true] at hw'
  rw [wire_roundtrip s m d hw'.1 hd] at h
  rw [← Option.some.inj h]
  exact wfMsg_norm s m hw

/-- for messages already in normal form the round trip is the identity -/
theorem wire_roundtrip_normal (s : Schema) (m : Msg) (d : Nat) (hc : confMsg s m = true) (hd : depthMsg m < d)
    (hn : normMsg s m = m) : decode d s (encode s m) = some m := by
  rw [wire_roundtrip s m d hc hd, hn]

/-- **encode_canonical** — whatever the decoder returns for an encoding re-encodes to the identical bytes -/
theorem encode_canonical (s : Schema) (m m' : Msg) (d : Nat) (hc : confMsg s m = true) (hd : depthMsg m < d)
    (h : decode d s (encode s m) = some m') : encode s m' = encode s m := by
  rw [wire_roundtrip s m d hc hd] at h
  have : m' = normMsg s m := (Option.some.inj h).symm
  subst this
  unfold encode
  rw [normMsg_idem]

theorem encode_norm (s : Schema) (m : Msg) : encode s (normMsg s m) = encode s m := by
  unfold encode; rw [normMsg_idem]

/-- **encode_injective** — on conforming messages the bytes determine the normal form -/
theorem encode_injective (s : Schema) (m₁ m₂ : Msg) (h₁ : confMsg s m₁ = true) (h₂ : confMsg s m₂ = true)
    (h : encode s m₁ = encode s m₂) : normMsg s m₁ = normMsg s m₂ :=
  encMsg_injective (confMsg_norm s m₁ h₁) (confMsg_norm s m₂ h₂) h

/-! ## signatures bind every signed field -/

/-- **sig_binds** — `sigHash x = hash (encode (signed message of x))` (`crypto/hash.go:33`).  If the hash is
injective (explicit hypothesis: collision-freeness of Keccak-256, idealised), equal signature hashes force equal
signed messages. -/
theorem sig_binds {H : Type} (hash : Bytes → H) (hinj : ∀ a b, hash a = hash b → a = b)
    (s : Schema) (x y : Msg) (hx : confMsg s x = true) (hy : confMsg s y = true)
    (h : hash (encode s x) = hash (encode s y)) : normMsg s x = normMsg s y :=
  encode_injective s x y hx hy (hinj _ _ h)

/-- equal normal forms ⇒ every singular field reads the same through the proto3 getters -/
theorem norm_eq_fields (s : Schema) (x y : Msg) (hx : wfMsg s x = true) (hy : wfMsg s y = true)
    (e : normMsg s x = normMsg s y) :
    ∀ f k, s.lookup f = some (false, k) →
      getInt x f = getInt y f ∧ getBytes x f = getBytes y f ∧
      (∀ s', k = .msg s' → (getMsg x f).map (normMsg s') = (getMsg y f).map (normMsg s')) := by
  simp only [wfMsg, Bool.and_eq_true] at hx hy
  intro f k hl
  refine ⟨?_, ?_, ?_⟩
  · rw [← getInt_normMsg hl hx.2, ← getInt_normMsg hl hy.2, e]
  · rw [← getBytes_normMsg hl hx.2, ← getBytes_normMsg hl hy.2, e]
  · intro s' hk
    subst hk
    rw [← getMsg_normMsg hl hx.2, ← getMsg_normMsg hl hy.2, e]

/-- … so equal signature hashes force every signed proto field equal -/
theorem sig_binds_fields {H : Type} (hash : Bytes → H) (hinj : ∀ a b, hash a = hash b → a = b)
    (s : Schema) (x y : Msg) (hx : wfMsg s x = true) (hy : wfMsg s y = true)
    (h : hash (encode s x) = hash (encode s y)) :
    ∀ f k, s.lookup f = some (false, k) →
      getInt x f = getInt y f ∧ getBytes x f = getBytes y f ∧
      (∀ s', k = .msg s' → (getMsg x f).map (normMsg s') = (getMsg y f).map (normMsg s')) := by
  have hx' := hx
  have hy' := hy
  simp only [wfMsg, Bool.and_eq_true] at hx' hy'
  exact norm_eq_fields s x y hx hy (sig_binds hash hinj s x y hx'.1 hy'.1 h)

/-! ### the transaction: signature (`types.go:852`, `transaction_signing.go:34`) and hash (`types.go:823`) -/

theorem txDataMsg_wf (t : TxSigned) : wfMsg txDataSchema (txDataMsg t) = true := by
  simp [wfMsg, confMsg, sortedMsg, txDataMsg, txDataSchema, Val.conf, Val.sorted, List.lookup]

theorem optEnc_injective {n : Nat} (hn : 0 < n) {x y : Option Bytes} (hx : ∀ a, x = some a → a.length = n)
    (hy : ∀ a, y = some a → a.length = n) (h : optEnc x = optEnc y) : x = y := by
  rw [← optDec_optEnc hn x hx, ← optDec_optEnc hn y hy, h]

theorem txData_norm_binds (t u : TxSigned) (ht : t.WF) (hu : u.WF)
    (e : normMsg txDataSchema (txDataMsg t) = normMsg txDataSchema (txDataMsg u)) : t.Same u := by
  have key := norm_eq_fields txDataSchema _ _ (txDataMsg_wf t) (txDataMsg_wf u) e
  have f1 := (key 1 .int rfl).1
  have f2 := (key 2 .int rfl).1
  have f3 := (key 3 .int rfl).1
  have f4 := (key 4 .bytes rfl).2.1
  have f5 := (key 5 .bytes rfl).2.1
  have f6 := (key 6 .bytes rfl).2.1
  have f7 := (key 7 .bytes rfl).2.1
  have f8 := (key 8 .bytes rfl).2.1
  simp only [getInt, getBytes, txDataMsg, List.lookup] at f1 f2 f3 f4 f5 f6 f7 f8
  simp at f1 f2 f3 f4 f5 f6 f7 f8
  obtain ⟨hto, ha, hm, htp⟩ := ht
  obtain ⟨hto', ha', hm', htp'⟩ := hu
  exact ⟨f1, f2, f3, optEnc_injective (by decide) hto hto' f4, bigEnc_injective ha ha' f5,
    bigEnc_injective hm hm' f6, bigEnc_injective htp htp' f7, f8⟩

/-- **tx_sig_binds** — two transactions with the same signature hash agree on nonce, epoch, type, recipient,
amount, max fee, tips (as values, `nil ≃ 0`) and payload.  With `recover sig h` a function of `(sig, h)` this is
"changing a signed field changes the recovered signer or invalidates the signature", up to hash collisions. -/
theorem tx_sig_binds {H : Type} (hash : Bytes → H) (hinj : ∀ a b, hash a = hash b → a = b)
    (t u : TxSigned) (ht : t.WF) (hu : u.WF)
    (h : hash (encode txDataSchema (txDataMsg t)) = hash (encode txDataSchema (txDataMsg u))) : t.Same u := by
  have hx := txDataMsg_wf t
  have hy := txDataMsg_wf u
  simp only [wfMsg, Bool.and_eq_true] at hx hy
  exact txData_norm_binds t u ht hu (sig_binds hash hinj _ _ _ hx.1 hy.1 h)

/-- the WF condition is necessary: amounts `5` and `-5` are different objects with the same signature hash
(the sign is dropped by `BigIntBytesOrNil`); such an object cannot come out of `FromBytes`. -/
theorem tx_sig_negative_amount_collides :
    encode txDataSchema (txDataMsg ⟨1, 2, 0, none, some 5, none, none, []⟩) =
    encode txDataSchema (txDataMsg ⟨1, 2, 0, none, some (-5), none, none, []⟩) := rfl

theorem txMsg_wf (t : TxFull) : wfMsg txSchema (txMsg t) = true := by
  have h := txDataMsg_wf t.data
  simp only [wfMsg, Bool.and_eq_true] at h
  simp [wfMsg, confMsg, sortedMsg, txMsg, txSchema, Val.conf, Val.sorted, List.lookup, h.1, h.2]

theorem b2n_injective {a b : Bool} (h : b2n a = b2n b) : a = b := by
  cases a <;> cases b <;> simp_all [b2n]

/-- **tx_hash_binds** — `Transaction.Hash()` (Keccak of the full encoding, types.go:823) binds the signed part,
the signature bytes and the `UseRlp` flag: transactions with equal hashes are equal objects. -/
theorem tx_hash_binds {H : Type} (hash : Bytes → H) (hinj : ∀ a b, hash a = hash b → a = b)
    (t u : TxFull) (ht : t.data.WF) (hu : u.data.WF)
    (h : hash (encode txSchema (txMsg t)) = hash (encode txSchema (txMsg u))) :
    t.data.Same u.data ∧ t.signature = u.signature ∧ t.useRlp = u.useRlp := by
  have key := sig_binds_fields hash hinj txSchema _ _ (txMsg_wf t) (txMsg_wf u) h
  have f1 := (key 1 (.msg txDataSchema) rfl).2.2 txDataSchema rfl
  have f2 := (key 2 .bytes rfl).2.1
  have f3 := (key 3 .int rfl).1
  simp only [getInt, getBytes, getMsg, txMsg, List.lookup] at f1 f2 f3
  simp at f1 f2 f3
  exact ⟨txData_norm_binds _ _ ht hu f1, f2, b2n_injective f3⟩

/-! ### memoised hashes (`Transaction.hash/hash128/from`, `Block.hash`, …) -/

/-- a memo is a function of the encoding: whatever a node decodes from the object's bytes has the same hash, so a
live object whose memo differs from `hash (encode …)` of its current fields disagrees with every other node
(what the harness family "memo consistency under API sequences" tests on the real objects) -/
theorem memo_stable_over_wire {H : Type} (hash : Bytes → H) (s : Schema) (m m' : Msg) (d : Nat)
    (hc : confMsg s m = true) (hd : depthMsg m < d) (h : decode d s (encode s m) = some m') :
    hash (encode s m') = hash (encode s m) := by
  rw [encode_canonical s m m' d hc hd h]

/-- identifiers are functions of the decoded VALUE: two byte strings (canonical or not: explicit defaults, over-long
varints, …) that decode to messages with the same normal form yield the same identifier `hash (encode …)`, and the
re-encoding of either is the one canonical byte string.  A hash taken over the bytes an object ARRIVED in is not
such a function (the harness family "non-canonical encodings" feeds the real decoders with them). -/
theorem ident_function_of_value {H : Type} (hash : Bytes → H) (s : Schema) (b₁ b₂ : Bytes) (m₁ m₂ : Msg) (d : Nat)
    (_h₁ : decode d s b₁ = some m₁) (_h₂ : decode d s b₂ = some m₂) (e : normMsg s m₁ = normMsg s m₂) :
    encode s m₁ = encode s m₂ ∧ hash (encode s m₁) = hash (encode s m₂) := by
  have : encode s m₁ = encode s m₂ := by unfold encode; rw [e]
  exact ⟨this, by rw [this]⟩

/-- decoding is not injective: the explicit default `18 00` (`useRlp = false`) after a transaction's canonical bytes
decodes to a message with the same normal form, and so do over-long varints -/
example : ∃ b₁ b₂ m₁ m₂, b₁ ≠ b₂ ∧ decode 2 txSchema b₁ = some m₁ ∧ decode 2 txSchema b₂ = some m₂ ∧
    normMsg txSchema m₁ = normMsg txSchema m₂ :=
  ⟨[18, 1, 7], [18, 1, 7, 24, 0], [(2, .bytes [7])], [(2, .bytes [7]), (3, .int 0)], by decide, by rfl, by rfl, by rfl⟩

/-- `types.SignTx` (transaction_signing.go:13-30): a fresh object, the eight data fields copied, new signature,
`UseRlp` not carried over, no memo -/
def signTxModel (t : TxFull) (sig : Bytes) : TxFull := ⟨t.data, sig, false⟩

/-- the hash memoised on the input of a re-signing is never the hash of its result when the signature changed:
carrying the memo over (struct copy) makes the object report a hash no other node computes -/
theorem resign_changes_hash {H : Type} (hash : Bytes → H) (hinj : ∀ a b, hash a = hash b → a = b)
    (t : TxFull) (sig : Bytes) (hw : t.data.WF) (hne : sig ≠ t.signature) :
    hash (encode txSchema (txMsg (signTxModel t sig))) ≠ hash (encode txSchema (txMsg t)) := by
  intro h
  exact hne (tx_hash_binds hash hinj (signTxModel t sig) t hw hw h).2.1

/-! ### the vote (`types.go:706`) -/

theorem voteDataMsg_wf (v : VoteSigned) : wfMsg voteDataSchema (voteDataMsg v) = true := by
  simp [wfMsg, confMsg, sortedMsg, voteDataMsg, voteDataSchema, Val.conf, Val.sorted, List.lookup]

/-- **vote_sig_binds** — a vote signature binds round, step, both hashes, the offline flag and the upgrade number -/
theorem vote_sig_binds {H : Type} (hash : Bytes → H) (hinj : ∀ a b, hash a = hash b → a = b)
    (v w : VoteSigned)
    (h : hash (encode voteDataSchema (voteDataMsg v)) = hash (encode voteDataSchema (voteDataMsg w))) :
    v = w := by
  have key := sig_binds_fields hash hinj voteDataSchema _ _ (voteDataMsg_wf v) (voteDataMsg_wf w) h
  have f1 := (key 1 .int rfl).1
  have f2 := (key 2 .int rfl).1
  have f3 := (key 3 .bytes rfl).2.1
  have f4 := (key 4 .bytes rfl).2.1
  have f5 := (key 5 .int rfl).1
  have f6 := (key 6 .int rfl).1
  simp only [getInt, getBytes, voteDataMsg, List.lookup] at f1 f2 f3 f4 f5 f6
  simp at f1 f2 f3 f4 f5 f6
  have f5' := b2n_injective f5
  cases v; cases w
  simp_all

/-! ### the two-part header: validity = exactly one part; for valid headers the accessors read the hashed part -/

/-- **valid_header_accessors_hashed** — in a valid header every accessor reads a field of the very part whose
encoding is the pre-image of `Hash()`; together with `proposed_hash_binds` / `empty_hash_binds` the hash binds
everything the node acts on. -/
theorem valid_header_accessors_hashed (h : HeaderM) (hv : h.valid = true) :
    (∃ p, h.proposed = some p ∧ h.empty = none ∧ h.hashMsg = some (proposedSchema, proposedMsg p) ∧
      h.height = some p.height ∧ h.parentHash = some p.parentHash ∧ h.root = some p.root ∧
      h.identityRoot = some p.identityRoot ∧ h.seed = some p.blockSeed ∧ h.time = some p.time ∧
      h.flags = some p.flags) ∨
    (∃ e, h.empty = some e ∧ h.proposed = none ∧ h.hashMsg = some (emptySchema, emptyMsg e) ∧
      h.height = some e.height ∧ h.parentHash = some e.parentHash ∧ h.root = some e.root ∧
      h.identityRoot = some e.identityRoot ∧ h.seed = some e.blockSeed ∧ h.time = some e.time ∧
      h.flags = some e.flags) := by
  obtain ⟨p, e⟩ := h
  cases p <;> cases e <;> simp [HeaderM.valid] at hv
  · right; exact ⟨_, rfl, rfl, rfl, rfl, rfl, rfl, rfl, rfl, rfl, rfl⟩
  · left; exact ⟨_, rfl, rfl, rfl, rfl, rfl, rfl, rfl, rfl, rfl, rfl⟩

/-- **two_part_header_splits** — with both parts present the hash is taken over the proposed part while `Root()`
(likewise `IdentityRoot/Seed/Time/Flags`) reads the empty part: the empty part can be changed at will without
changing the hash.  This is why such a header must be invalid. -/
theorem two_part_header_splits (p : ProposedHdr) (e e' : EmptyHdr) :
    (⟨some p, some e⟩ : HeaderM).hashMsg = (⟨some p, some e'⟩ : HeaderM).hashMsg ∧
    (⟨some p, some e⟩ : HeaderM).root = some e.root ∧ (⟨some p, some e'⟩ : HeaderM).root = some e'.root ∧
    (⟨some p, some e⟩ : HeaderM).valid = false :=
  ⟨rfl, rfl, rfl, rfl⟩

example : (⟨none, none⟩ : HeaderM).valid = false := rfl

/-! ### certificate compression binds every signed vote field (`types.go:1009`, `blockchain.go:2428`) -/

/-- **expand_compress** — for votes that share round, step, parent hash and voted hash (what a certificate is made
of), re-expanding the compressed certificate the way `ValidateBlockCert` does gives exactly the votes back: every
signature keeps ITS OWN `TurnOffline` / `Upgrade`. -/
theorem expand_compress (parent : Bytes) (r st : Nat) (vh : Bytes) (votes : List VoteM) (hne : votes ≠ [])
    (h : ∀ v ∈ votes, v.hdr.round = r ∧ v.hdr.step = st ∧ v.hdr.parentHash = parent ∧ v.hdr.votedHash = vh) :
    expand parent (compress votes) = votes := by
  cases votes with
  | nil => exact absurd rfl hne
  | cons v vs =>
    obtain ⟨h1, h2, _, h4⟩ := h v (by simp)
    simp only [compress, expand, List.map_map]
    have : ∀ w ∈ v :: vs, ((fun s : CertSig => (⟨⟨v.hdr.round, v.hdr.step, parent, v.hdr.votedHash, s.turnOffline, s.upgrade⟩,
        s.signature⟩ : VoteM)) ∘ fun w : VoteM => (⟨w.hdr.turnOffline, w.hdr.upgrade, w.signature⟩ : CertSig)) w = w := by
      intro w hw
      obtain ⟨w1, w2, w3, w4⟩ := h w hw
      obtain ⟨⟨a, b, c, d, e, f⟩, g⟩ := w
      simp only at w1 w2 w3 w4
      simp [Function.comp, h1, h2, h4, w1, w2, w3, w4]
    rw [List.map_congr_left this]
    simp

/-- a vote rebuilt with ANOTHER header (e.g. the first vote's flags instead of its own) has another signature hash,
so its signature recovers an unrelated signer: storing foreign flags next to a signature breaks the certificate -/
theorem vote_sig_distinguishes {H : Type} (hash : Bytes → H) (hinj : ∀ a b, hash a = hash b → a = b)
    (v w : VoteSigned) (hne : v ≠ w) :
    hash (encode voteDataSchema (voteDataMsg v)) ≠ hash (encode voteDataSchema (voteDataMsg w)) :=
  fun h => hne (vote_sig_binds hash hinj v w h)

/-- a certificate that stores the FIRST vote's flags next to every signature is not a round trip: for the votes
`(offline = false, sig 1)`, `(offline = true, sig 2)` it re-expands to two `offline = false` votes -/
example : expand [] ⟨1, 2, [], [⟨false, 0, [1]⟩, ⟨false, 0, [2]⟩]⟩ ≠
    [⟨⟨1, 2, [], [], false, 0⟩, [1]⟩, ⟨⟨1, 2, [], [], true, 0⟩, [2]⟩] := by decide
example : expand [] (compress [⟨⟨1, 2, [], [], false, 0⟩, [1]⟩, ⟨⟨1, 2, [], [], true, 7⟩, [2]⟩]) =
    [⟨⟨1, 2, [], [], false, 0⟩, [1]⟩, ⟨⟨1, 2, [], [], true, 7⟩, [2]⟩] := by decide

/-! ### block hashes (`types.go:683`, `:701`): the hash binds every header field -/

theorem i64Enc_injective {a b : Int} (ha : inI64 a) (hb : inI64 b) (h : i64Enc a = i64Enc b) : a = b := by
  rw [← i64Dec_i64Enc a ha.1 ha.2, ← i64Dec_i64Enc b hb.1 hb.2, h]

theorem proposedMsg_wf (h : ProposedHdr) : wfMsg proposedSchema (proposedMsg h) = true := by
  simp [wfMsg, confMsg, sortedMsg, proposedMsg, proposedSchema, Val.conf, Val.sorted, List.lookup]

/-- **proposed_hash_binds** — two proposed headers with the same `Hash()` agree on all 16 fields
(fee per gas as a value, `nil ≃ 0`). -/
theorem proposed_hash_binds {H : Type} (hash : Bytes → H) (hinj : ∀ a b, hash a = hash b → a = b)
    (g h : ProposedHdr) (hg : g.WF) (hh : h.WF)
    (e : hash (encode proposedSchema (proposedMsg g)) = hash (encode proposedSchema (proposedMsg h))) :
    g.parentHash = h.parentHash ∧ g.height = h.height ∧ g.time = h.time ∧ g.txHash = h.txHash ∧
    g.proposerPubKey = h.proposerPubKey ∧ g.root = h.root ∧ g.identityRoot = h.identityRoot ∧ g.flags = h.flags ∧
    g.ipfsHash = h.ipfsHash ∧ g.offlineAddr = h.offlineAddr ∧ g.txBloom = h.txBloom ∧ g.blockSeed = h.blockSeed ∧
    bigVal g.feePerGas = bigVal h.feePerGas ∧ g.upgrade = h.upgrade ∧ g.seedProof = h.seedProof ∧
    g.receiptsCid = h.receiptsCid := by
  have key := sig_binds_fields hash hinj proposedSchema _ _ (proposedMsg_wf g) (proposedMsg_wf h) e
  have f1 := (key 1 .bytes rfl).2.1
  have f2 := (key 2 .int rfl).1
  have f3 := (key 3 .int rfl).1
  have f4 := (key 4 .bytes rfl).2.1
  have f5 := (key 5 .bytes rfl).2.1
  have f6 := (key 6 .bytes rfl).2.1
  have f7 := (key 7 .bytes rfl).2.1
  have f8 := (key 8 .int rfl).1
  have f9 := (key 9 .bytes rfl).2.1
  have f10 := (key 10 .bytes rfl).2.1
  have f11 := (key 11 .bytes rfl).2.1
  have f12 := (key 12 .bytes rfl).2.1
  have f13 := (key 13 .bytes rfl).2.1
  have f14 := (key 14 .int rfl).1
  have f15 := (key 15 .bytes rfl).2.1
  have f16 := (key 16 .bytes rfl).2.1
  simp only [getInt, getBytes, proposedMsg, List.lookup] at f1 f2 f3 f4 f5 f6 f7 f8 f9 f10 f11 f12 f13 f14 f15 f16
  simp at f1 f2 f3 f4 f5 f6 f7 f8 f9 f10 f11 f12 f13 f14 f15 f16
  obtain ⟨gt, ga, gf⟩ := hg
  obtain ⟨ht, ha, hf⟩ := hh
  exact ⟨f1, f2, i64Enc_injective gt ht f3, f4, f5, f6, f7, f8, f9, optEnc_injective (by decide) ga ha f10, f11, f12,
    bigEnc_injective gf hf f13, f14, f15, f16⟩

theorem emptyMsg_wf (h : EmptyHdr) : wfMsg emptySchema (emptyMsg h) = true := by
  simp [wfMsg, confMsg, sortedMsg, emptyMsg, emptySchema, Val.conf, Val.sorted, List.lookup]

/-- **empty_hash_binds** — the hash of an empty block's header binds all 7 fields -/
theorem empty_hash_binds {H : Type} (hash : Bytes → H) (hinj : ∀ a b, hash a = hash b → a = b)
    (g h : EmptyHdr) (hg : inI64 g.time) (hh : inI64 h.time)
    (e : hash (encode emptySchema (emptyMsg g)) = hash (encode emptySchema (emptyMsg h))) : g = h := by
  have key := sig_binds_fields hash hinj emptySchema _ _ (emptyMsg_wf g) (emptyMsg_wf h) e
  have f1 := (key 1 .bytes rfl).2.1
  have f2 := (key 2 .int rfl).1
  have f3 := (key 3 .bytes rfl).2.1
  have f4 := (key 4 .bytes rfl).2.1
  have f5 := (key 5 .int rfl).1
  have f6 := (key 6 .bytes rfl).2.1
  have f7 := (key 7 .int rfl).1
  simp only [getInt, getBytes, emptyMsg, List.lookup] at f1 f2 f3 f4 f5 f6 f7
  simp at f1 f2 f3 f4 f5 f6 f7
  have f5' := i64Enc_injective hg hh f5
  cases g; cases h
  simp_all

/-! ## generic flat records (`codec_roundtrip` of DESIGN 5/C18 for the flat codecs) -/

/-- **record_roundtrip** — for every flat codec described by a spec in field-number order, every record whose values
are in the domain of their conversions: decoding the encoding and converting back yields a semantically equal record
(`nil ≃ 0` for big integers), and re-encoding the decoded message gives the identical bytes.  The spec of every flat
idena-go type is derived at run time and `encode (recToMsg spec x)` is compared with the real `ToBytes` (`rec` op). -/
theorem record_roundtrip (spec : Spec) (gs : List GoVal) (m : Msg) (hok : specOK spec = true)
    (hm : recToMsg spec gs = some m) (hw : recWF spec gs) :
    ∃ m', decode 1 (recSchema spec) (encode (recSchema spec) m) = some m' ∧
      (recFromMsg spec m').map GoVal.sem = gs.map GoVal.sem ∧
      encode (recSchema spec) m' = encode (recSchema spec) m := by
  have hwf := recToMsg_wf hok hm
  have hwf' := hwf
  simp only [wfMsg, Bool.and_eq_true] at hwf'
  obtain ⟨hs, _⟩ := (specOK_iff spec).mp hok
  refine ⟨normMsg (recSchema spec) m, ?_, ?_, encode_norm _ _⟩
  · exact wire_roundtrip _ m 1 hwf'.1 (by rw [recToMsg_depth spec gs m hm]; decide)
  · rw [recFromMsg_normMsg hs hwf'.2]
    have hk := recToMsg_keys spec gs m hm
    have hlk : ∀ p ∈ m, m.lookup p.1 = some p.2 := lookup_of_mem_sorted m (by rw [hk]; exact hs)
    have := recFrom_sem m spec gs m hm hlk hw
    simpa [recFromMsg, List.map_map, Function.comp_def] using this

/-- a record codec is injective up to the semantic normal form: equal bytes ⇒ equal records -/
theorem record_injective (spec : Spec) (gs hs : List GoVal) (m n : Msg) (hok : specOK spec = true)
    (hm : recToMsg spec gs = some m) (hn : recToMsg spec hs = some n) (hwg : recWF spec gs) (hwh : recWF spec hs)
    (e : encode (recSchema spec) m = encode (recSchema spec) n) : gs.map GoVal.sem = hs.map GoVal.sem := by
  obtain ⟨m', d1, r1, _⟩ := record_roundtrip spec gs m hok hm hwg
  obtain ⟨n', d2, r2, _⟩ := record_roundtrip spec hs n hok hn hwh
  rw [e, d2] at d1
  have : n' = m' := Option.some.inj d1
  subst this
  rw [← r1, r2]

/-! ## conversions (`conv_roundtrip`) -/

theorem conv_big_roundtrip (x : Option Int) (h : 0 ≤ bigVal x) : bigVal (bigDec (bigEnc x)) = bigVal x :=
  bigDec_bigEnc x h
theorem conv_big_sign_lost : bigVal (bigDec (bigEnc (some (-5)))) = 5 := big_negative_not_roundtrip
theorem conv_i64_roundtrip (z : Int) (hlo : -(2 ^ 63 : Int) ≤ z) (hhi : z < (2 ^ 63 : Int)) :
    i64Dec (i64Enc z) = z := i64Dec_i64Enc z hlo hhi
theorem conv_fixed_roundtrip {n : Nat} {b : Bytes} (h : b.length = n) : fixN n b = b := fixN_of_length h
theorem conv_optaddr_roundtrip (x : Option Bytes) (h : ∀ a, x = some a → a.length = 20) :
    optDec 20 (optEnc x) = x := optDec_optEnc (by decide) x h
theorem conv_narrow_roundtrip {bits n : Nat} (h : n < 2 ^ bits) : narrow bits n = n := narrow_of_lt h

/-! ## the regenerated field table -/

theorem codec_covers {t : List Row} (h : TableOK t = true) :
    ∀ r ∈ t, r.allow = none → ∃ p, p ∈ r.enc ∧ p ∈ r.dec := Codec.codec_covers h
theorem sig_covers {t : List Row} (h : TableOK t = true) :
    ∀ r ∈ t, r.allow = none → r.signed = true → r.unsigned = none → r.sig ≠ [] := Codec.sig_covers h
theorem uncovered_field_breaks (t : List Row) (r : Row) (hr : r ∈ t) (ha : r.allow = none) (he : r.enc = []) :
    TableOK t = false := Codec.uncovered_field_breaks t r hr ha he

/-! ## non-vacuity -/

/-- a nested, repeated, packed message with default-valued fields: conforming, depth 2 -/
def exSchema : Schema :=
  [(1, false, .msg [(1, false, .int), (4, false, .bytes), (9, true, .msg [(2, false, .int)])]),
   (2, false, .bytes), (3, false, .int), (13, true, .packed), (15, true, .bytes)]
def exMsg : Msg :=
  [(1, .msg [(1, .int 300), (4, .bytes []), (9, .msg []), (9, .msg [(2, .int 0)])]),
   (2, .bytes [1, 2, 3]), (3, .int 0), (13, .packed [1, 128, 16384]), (15, .bytes []), (15, .bytes [7])]

example : wfMsg exSchema exMsg = true := by decide
example : depthMsg exMsg < 3 := by decide
/-- the normal form drops the three default-valued singular fields and keeps the empty repeated elements -/
example : normMsg exSchema exMsg =
    [(1, .msg [(1, .int 300), (9, .msg []), (9, .msg [])]),
     (2, .bytes [1, 2, 3]), (13, .packed [1, 128, 16384]), (15, .bytes []), (15, .bytes [7])] := by rfl
example : decode 3 exSchema (encode exSchema exMsg) = some (normMsg exSchema exMsg) :=
  wire_roundtrip exSchema exMsg 3 (by decide) (by decide)
/-- concrete bytes: field 1 = nested message of 7 bytes (`08 ac 02` = field 1 varint 300, two empty elements of field 9), … -/
example : encode exSchema exMsg =
    [10, 7, 8, 172, 2, 74, 0, 74, 0, 18, 3, 1, 2, 3, 106, 6, 1, 128, 1, 128, 128, 1, 122, 0, 122, 1, 7] := by
  simp [encode, normMsg, exSchema, exMsg, omitted, Val.isDefault, Val.isPacked, Val.norm, encMsg, Val.toRaw,
    encRawField, encVarints, varint, List.lookup]

example : (⟨1, 2, 0, some (List.replicate 20 7), some 5, none, some 0, [1]⟩ : TxSigned).WF := by
  refine ⟨?_, by decide, by decide, by decide⟩
  intro a h; cases h; rfl
example : (⟨List.replicate 32 1, 7, -1, [], [4], [], [], 3, [], some (List.replicate 20 9), [], [], some 10, 0, [], []⟩ : ProposedHdr).WF := by
  refine ⟨⟨by decide, by decide⟩, ?_, by decide⟩
  intro a h; cases h; rfl
example : inI64 (-5) := ⟨by decide, by decide⟩
example : ∃ t u : TxSigned, t.WF ∧ u.WF ∧ t ≠ u := by
  refine ⟨⟨1, 2, 0, none, none, none, none, []⟩, ⟨2, 2, 0, none, none, none, none, []⟩, ?_, ?_, ?_⟩
  · exact ⟨(by intro a h; cases h), by decide, by decide, by decide⟩
  · exact ⟨(by intro a h; cases h), by decide, by decide, by decide⟩
  · intro h; cases h
example : TableOK [⟨"Transaction", "AccountNonce", ["Nonce"], ["Nonce", "Data"], ["Nonce"], true, none, none⟩,
    ⟨"Transaction", "hash", [], [], [], true, some "memo of Hash()", none⟩,
    ⟨"Transaction", "Signature", ["Signature"], ["Signature"], [], true, none, some "the signature itself"⟩] = true := by
  decide
example : TableOK [⟨"Identity", "newField", [], [], [], false, none, none⟩] = false := by decide

end IdenaModel.C18
