import IdenaModel.Proofs.ProtoWire
import IdenaModel.Proofs.CodecTable
/-!
# C18 — wire and storage encodings round-trip; signatures bind every signed field

Property (fixed text, `/verif/properties.jsonl`): every consensus and storage object decodes from its own encoding to a
semantically equal object and re-encodes to identical bytes; changing any field covered by a signature changes the
recovered signer or invalidates the signature; every field that influences behaviour is part of the encoding.

What is proved here (all messages of all sizes and nesting depths, by induction; no enumeration):

* `varint_roundtrip`, `varint_u64_size` — the base-128 varint codec.
* `wire_roundtrip` — `decode (encode m) = some (normal form of m)` for every schema-conforming message.
* `encode_canonical` — re-encoding what was decoded gives identical bytes (so hashes over encodings are stable).
* `encode_injective` — equal bytes ⇒ equal normal forms (for one schema).
* `sig_binds`, `sig_binds_fields` — equal signature hashes ⇒ equal signed messages ⇒ every signed proto field equal,
  under the explicit hypothesis that the hash is injective (Keccak-256 idealised; listed in the trusted base).
* `tx_sig_binds`, `vote_sig_binds` — the same at the level of the Go fields of `Transaction` / `Vote` (including the
  big-integer, optional-address and fixed-array conversions); the Lean message builders `txDataMsg`, `voteDataMsg`
  are compared against the real `ToSignatureBytes` on every run (driver ops `txsig`, `votesig`).
* `conv_*` — the value conversions round-trip on their stated domains (`0 ≤ x` for big integers: the sign is not
  representable, `big_negative_not_roundtrip`).
* `codec_covers`, `sig_covers`, `uncovered_field_breaks` — the obligation on the field table regenerated from the
  current Go source: every struct field of every encodable type is mapped in both directions through a common
  proto field (and, for signed objects, into the signature message) or is on the committed allow-list.

Not proved, left to the differential harness (stated gap of DESIGN's `codec_roundtrip`): that each hand-written
`ToProto/FromProto` body computes exactly the conversion its field needs; this is checked per field and per value
class against the real code (reflection-driven round trips, distinguishing values), not derived from the source.
-/
namespace IdenaModel.C18
open IdenaModel.ProtoWire IdenaModel.Codec

/-! ## varint -/

/-- **varint_roundtrip** — for every natural number (in particular every `uint64`), followed by anything -/
theorem varint_roundtrip (n : Nat) (rest : Bytes) : readVarint (varint n ++ rest) = some (n, rest) :=
  readVarint_varint n rest

/-- a `uint64` takes at most 10 bytes, all of them bytes (the decoder's 10-byte limit is never hit by encoder output) -/
theorem varint_u64_size (n : Nat) (h : n < 2 ^ 64) : (varint n).length ≤ 10 ∧ ∀ b ∈ varint n, b < 256 :=
  ⟨varint_length_u64 n h, varint_bytes n⟩

/-! ## round trip, canonical form, injectivity -/

/-- **wire_roundtrip** — decoding the encoding of a conforming message yields its normal form (= the message
itself when it carries no default-valued singular field), for every nesting depth below the decoder's bound `d`. -/
theorem wire_roundtrip (s : Schema) (m : Msg) (d : Nat) (hc : confMsg s m = true) (hd : depthMsg m < d) :
    decode d s (encode s m) = some (normMsg s m) := by
  unfold decode encode
  exact decMsg_encMsg_of_lt (confMsg_norm s m hc) (Nat.lt_of_le_of_lt (depthMsg_norm s m) hd)

/-- for messages already in normal form the round trip is the identity -/
theorem wire_roundtrip_normal (s : Schema) (m : Msg) (d : Nat) (hc : confMsg s m = true) (hd : depthMsg m < d)
    (hn : normMsg s m = m) : decode d s (encode s m) = some m := by
  rw [wire_roundtrip s m d hc hd, hn]

/-- **encode_canonical** — whatever the decoder returns for an encoding re-encodes to the identical bytes -/
theorem encode_canonical (s : Schema) (m m' : Msg) (d : Nat) (hc : confMsg s m = true) (hd : depthMsg m < d)
    (h : decode d s (encode s m) = some m') : encode s m' = encode s m := by
  rw [wire_roundtrip s m d hc hd] at h
  have : m' = normMsg s m := (Option.some.inj h).symm
  subst this
  unfold encode
  rw [normMsg_idem]

theorem encode_norm (s : Schema) (m : Msg) : encode s (normMsg s m) = encode s m := by
  unfold encode; rw [normMsg_idem]

/-- **encode_injective** — on conforming messages the bytes determine the normal form -/
theorem encode_injective (s : Schema) (m₁ m₂ : Msg) (h₁ : confMsg s m₁ = true) (h₂ : confMsg s m₂ = true)
    (h : encode s m₁ = encode s m₂) : normMsg s m₁ = normMsg s m₂ :=
  encMsg_injective (confMsg_norm s m₁ h₁) (confMsg_norm s m₂ h₂) h

/-! ## signatures bind every signed field -/

/-- **sig_binds** — `sigHash x = hash (encode (signed message of x))` (`crypto/hash.go:33`).  If the hash is
injective (explicit hypothesis: collision-freeness of Keccak-256, idealised), equal signature hashes force equal
signed messages. -/
theorem sig_binds {H : Type} (hash : Bytes → H) (hinj : ∀ a b, hash a = hash b → a = b)
    (s : Schema) (x y : Msg) (hx : confMsg s x = true) (hy : confMsg s y = true)
    (h : hash (encode s x) = hash (encode s y)) : normMsg s x = normMsg s y :=
  encode_injective s x y hx hy (hinj _ _ h)

/-- … and therefore every singular field of the signed message reads the same through the proto3 getters -/
theorem sig_binds_fields {H : Type} (hash : Bytes → H) (hinj : ∀ a b, hash a = hash b → a = b)
    (s : Schema) (x y : Msg) (hx : wfMsg s x = true) (hy : wfMsg s y = true)
    (h : hash (encode s x) = hash (encode s y)) :
    ∀ f k, s.lookup f = some (false, k) →
      getInt x f = getInt y f ∧ getBytes x f = getBytes y f ∧
      (∀ s', k = .msg s' → (getMsg x f).map (normMsg s') = (getMsg y f).map (normMsg s')) := by
  simp only [wfMsg, Bool.and_eq_true] at hx hy
  have e := sig_binds hash hinj s x y hx.1 hy.1 h
  intro f k hl
  refine ⟨?_, ?_, ?_⟩
  · rw [← getInt_normMsg hl hx.2, ← getInt_normMsg hl hy.2, e]
  · rw [← getBytes_normMsg hl hx.2, ← getBytes_normMsg hl hy.2, e]
  · intro s' hk
    subst hk
    rw [← getMsg_normMsg hl hx.2, ← getMsg_normMsg hl hy.2, e]

/-! ### the transaction (`blockchain/types/types.go:852`, `transaction_signing.go:34`) -/

/-- `ProtoTransaction.Data` (`protobuf/models.proto:7-16`); compared with the regenerated descriptor on every run -/
def txDataSchema : Schema :=
  [(1, false, .int), (2, false, .int), (3, false, .int), (4, false, .bytes), (5, false, .bytes),
   (6, false, .bytes), (7, false, .bytes), (8, false, .bytes)]

/-- the signed fields of a `types.Transaction` as Go values (`*big.Int` = `Option Int`, `*Address` = `Option Bytes`) -/
structure TxSigned where
  nonce : Nat
  epoch : Nat
  type : Nat
  to : Option Bytes
  amount : Option Int
  maxFee : Option Int
  tips : Option Int
  payload : Bytes

/-- `(*Transaction).ToSignatureBytes` before `proto.Marshal` (types.go:852-866) -/
def txDataMsg (t : TxSigned) : Msg :=
  [(1, .int t.nonce), (2, .int t.epoch), (3, .int t.type), (4, .bytes (optEnc t.to)),
   (5, .bytes (bigEnc t.amount)), (6, .bytes (bigEnc t.maxFee)), (7, .bytes (bigEnc t.tips)),
   (8, .bytes t.payload)]

def TxSigned.WF (t : TxSigned) : Prop :=
  (∀ a, t.to = some a → a.length = 20) ∧ 0 ≤ bigVal t.amount ∧ 0 ≤ bigVal t.maxFee ∧ 0 ≤ bigVal t.tips

theorem txDataMsg_wf (t : TxSigned) : wfMsg txDataSchema (txDataMsg t) = true := by
  simp [wfMsg, confMsg, sortedMsg, txDataMsg, txDataSchema, Val.conf, Val.sorted, List.lookup]

theorem optEnc_injective {n : Nat} (hn : 0 < n) {x y : Option Bytes} (hx : ∀ a, x = some a → a.length = n)
    (hy : ∀ a, y = some a → a.length = n) (h : optEnc x = optEnc y) : x = y := by
  rw [← optDec_optEnc hn x hx, ← optDec_optEnc hn y hy, h]

/-- **tx_sig_binds** — two transactions with the same signature hash agree on nonce, epoch, type, recipient,
amount, max fee, tips (as values, `nil ≃ 0`) and payload.  With `recover sig h` a function of `(sig, h)` this is
"changing a signed field changes the recovered signer or invalidates the signature", up to hash collisions. -/
theorem tx_sig_binds {H : Type} (hash : Bytes → H) (hinj : ∀ a b, hash a = hash b → a = b)
    (t u : TxSigned) (ht : t.WF) (hu : u.WF)
    (h : hash (encode txDataSchema (txDataMsg t)) = hash (encode txDataSchema (txDataMsg u))) :
    t.nonce = u.nonce ∧ t.epoch = u.epoch ∧ t.type = u.type ∧ t.to = u.to ∧
    bigVal t.amount = bigVal u.amount ∧ bigVal t.maxFee = bigVal u.maxFee ∧ bigVal t.tips = bigVal u.tips ∧
    t.payload = u.payload := by
  have key := sig_binds_fields hash hinj txDataSchema _ _ (txDataMsg_wf t) (txDataMsg_wf u) h
  have f1 := (key 1 .int rfl).1
  have f2 := (key 2 .int rfl).1
  have f3 := (key 3 .int rfl).1
  have f4 := (key 4 .bytes rfl).2.1
  have f5 := (key 5 .bytes rfl).2.1
  have f6 := (key 6 .bytes rfl).2.1
  have f7 := (key 7 .bytes rfl).2.1
  have f8 := (key 8 .bytes rfl).2.1
  simp only [getInt, getBytes, txDataMsg, List.lookup] at f1 f2 f3 f4 f5 f6 f7 f8
  simp at f1 f2 f3 f4 f5 f6 f7 f8
  obtain ⟨hto, ha, hm, htp⟩ := ht
  obtain ⟨hto', ha', hm', htp'⟩ := hu
  exact ⟨f1, f2, f3, optEnc_injective (by decide) hto hto' f4, bigEnc_injective ha ha' f5,
    bigEnc_injective hm hm' f6, bigEnc_injective htp htp' f7, f8⟩

/-- the WF condition is necessary: amounts `5` and `-5` are different objects with the same signature hash
(the sign is dropped by `BigIntBytesOrNil`); such an object cannot come out of `FromBytes`. -/
theorem tx_sig_negative_amount_collides :
    encode txDataSchema (txDataMsg ⟨1, 2, 0, none, some 5, none, none, []⟩) =
    encode txDataSchema (txDataMsg ⟨1, 2, 0, none, some (-5), none, none, []⟩) := rfl

/-! ### the vote (`types.go:706`) -/

/-- `ProtoVote.Data` (`models.proto`): round, step, parentHash, votedHash, turnOffline, upgrade -/
def voteDataSchema : Schema :=
  [(1, false, .int), (2, false, .int), (3, false, .bytes), (4, false, .bytes), (5, false, .int), (6, false, .int)]

structure VoteSigned where
  round : Nat
  step : Nat
  parentHash : Bytes
  votedHash : Bytes
  turnOffline : Bool
  upgrade : Nat

def voteDataMsg (v : VoteSigned) : Msg :=
  [(1, .int v.round), (2, .int v.step), (3, .bytes v.parentHash), (4, .bytes v.votedHash),
   (5, .int (if v.turnOffline then 1 else 0)), (6, .int v.upgrade)]

theorem voteDataMsg_wf (v : VoteSigned) : wfMsg voteDataSchema (voteDataMsg v) = true := by
  simp [wfMsg, confMsg, sortedMsg, voteDataMsg, voteDataSchema, Val.conf, Val.sorted, List.lookup]

/-- **vote_sig_binds** — a vote signature binds round, step, both hashes, the offline flag and the upgrade number -/
theorem vote_sig_binds {H : Type} (hash : Bytes → H) (hinj : ∀ a b, hash a = hash b → a = b)
    (v w : VoteSigned)
    (h : hash (encode voteDataSchema (voteDataMsg v)) = hash (encode voteDataSchema (voteDataMsg w))) :
    v = w := by
  have key := sig_binds_fields hash hinj voteDataSchema _ _ (voteDataMsg_wf v) (voteDataMsg_wf w) h
  have f1 := (key 1 .int rfl).1
  have f2 := (key 2 .int rfl).1
  have f3 := (key 3 .bytes rfl).2.1
  have f4 := (key 4 .bytes rfl).2.1
  have f5 := (key 5 .int rfl).1
  have f6 := (key 6 .int rfl).1
  simp only [getInt, getBytes, voteDataMsg, List.lookup] at f1 f2 f3 f4 f5 f6
  simp at f1 f2 f3 f4 f5 f6
  cases v; cases w
  simp_all
  cases ‹Bool› <;> cases ‹Bool› <;> simp_all

/-! ## conversions (`conv_roundtrip`) -/

theorem conv_big_roundtrip (x : Option Int) (h : 0 ≤ bigVal x) : bigVal (bigDec (bigEnc x)) = bigVal x :=
  bigDec_bigEnc x h
theorem conv_big_sign_lost : bigVal (bigDec (bigEnc (some (-5)))) = 5 := big_negative_not_roundtrip
theorem conv_i64_roundtrip (z : Int) (hlo : -(2 ^ 63 : Int) ≤ z) (hhi : z < (2 ^ 63 : Int)) :
    i64Dec (i64Enc z) = z := i64Dec_i64Enc z hlo hhi
theorem conv_fixed_roundtrip {n : Nat} {b : Bytes} (h : b.length = n) : fixN n b = b := fixN_of_length h
theorem conv_optaddr_roundtrip (x : Option Bytes) (h : ∀ a, x = some a → a.length = 20) :
    optDec 20 (optEnc x) = x := optDec_optEnc (by decide) x h
theorem conv_narrow_roundtrip {bits n : Nat} (h : n < 2 ^ bits) : narrow bits n = n := narrow_of_lt h

/-! ## the regenerated field table -/

theorem codec_covers {t : List Row} (h : TableOK t = true) :
    ∀ r ∈ t, r.allow = none → ∃ p, p ∈ r.enc ∧ p ∈ r.dec := Codec.codec_covers h
theorem sig_covers {t : List Row} (h : TableOK t = true) :
    ∀ r ∈ t, r.allow = none → r.signed = true → r.unsigned = none → r.sig ≠ [] := Codec.sig_covers h
theorem uncovered_field_breaks (t : List Row) (r : Row) (hr : r ∈ t) (ha : r.allow = none) (he : r.enc = []) :
    TableOK t = false := Codec.uncovered_field_breaks t r hr ha he

/-! ## non-vacuity -/

/-- a nested, repeated, packed message with default-valued fields: conforming, depth 2 -/
def exSchema : Schema :=
  [(1, false, .msg [(1, false, .int), (4, false, .bytes), (9, true, .msg [(2, false, .int)])]),
   (2, false, .bytes), (3, false, .int), (13, true, .packed), (15, true, .bytes)]
def exMsg : Msg :=
  [(1, .msg [(1, .int 300), (4, .bytes []), (9, .msg []), (9, .msg [(2, .int 0)])]),
   (2, .bytes [1, 2, 3]), (3, .int 0), (13, .packed [1, 128, 16384]), (15, .bytes []), (15, .bytes [7])]

example : wfMsg exSchema exMsg = true := by decide
example : depthMsg exMsg < 3 := by decide
/-- the normal form drops the three default-valued singular fields and keeps the empty repeated elements -/
example : normMsg exSchema exMsg =
    [(1, .msg [(1, .int 300), (9, .msg []), (9, .msg [])]),
     (2, .bytes [1, 2, 3]), (13, .packed [1, 128, 16384]), (15, .bytes []), (15, .bytes [7])] := by rfl
example : decode 3 exSchema (encode exSchema exMsg) = some (normMsg exSchema exMsg) :=
  wire_roundtrip exSchema exMsg 3 (by decide) (by decide)
/-- concrete bytes (hand-checked against protoc): field 1 = nested message of 8 bytes, … -/
example : encode exSchema exMsg =
    [10, 7, 8, 172, 2, 74, 0, 74, 0, 18, 3, 1, 2, 3, 106, 6, 1, 128, 1, 128, 128, 1, 122, 0, 122, 1, 7] := by
  simp [encode, normMsg, exSchema, exMsg, omitted, Val.isDefault, Val.isPacked, Val.norm, encMsg, Val.toRaw,
    encRawField, encVarints, varint, List.lookup]

example : (⟨1, 2, 0, some (List.replicate 20 7), some 5, none, some 0, [1]⟩ : TxSigned).WF := by
  refine ⟨?_, by decide, by decide, by decide⟩
  intro a h; cases h; rfl
example : ∃ t u : TxSigned, t.WF ∧ u.WF ∧ t ≠ u := by
  refine ⟨⟨1, 2, 0, none, none, none, none, []⟩, ⟨2, 2, 0, none, none, none, none, []⟩, ?_, ?_, ?_⟩
  · exact ⟨(by intro a h; cases h), by decide, by decide, by decide⟩
  · exact ⟨(by intro a h; cases h), by decide, by decide, by decide⟩
  · intro h; cases h
example : TableOK [⟨"Transaction", "AccountNonce", ["Nonce"], ["Nonce", "Data"], ["Nonce"], true, none, none⟩,
    ⟨"Transaction", "hash", [], [], [], true, some "memo of Hash()", none⟩,
    ⟨"Transaction", "Signature", ["Signature"], ["Signature"], [], true, none, some "the signature itself"⟩] = true := by
  decide
example : TableOK [⟨"Identity", "newField", [], [], [], false, none, none⟩] = false := by decide

end IdenaModel.C18
