/-!
# M-Contract — the buffered contract environments of idena-go and the contract-transaction wrapper (core Lean only)

Sources (cited as `file:line` of /repo):
* `vm/env/env.go` — `EnvImp`: caches for balances (`:64`), contract store (`:63`), deployed (`:65`) and dropped
  (`:66`) contracts, stakes (`:68`), events; `Send :95`, `Deploy :110`, `SetValue :131`, `RemoveValue :153`,
  `Iterate :212`, `BurnAll :250`, `ReadContractData :257`, `Terminate :272`, `Commit :296`, `Event :322`,
  `MoveToStake :352`, `Reset :372`; `vm/env/gas.go` (`AddGas`), `vm/costs/costs.go`.
* `vm/vm.go:180` `VmImpl.Run` (commit iff the method returned no error; `usedGas := min(used, gasLimit)`).
* `vm/wasm/wasm_env.go` — `WasmEnv`: nested environments (`CreateSubEnv :281`), `SubBalance :166`, `AddBalance :178`,
  `Burn :58`, `Commit :389` (into the parent; the root writes to the state), `Deploy :371`; `vm/wasm/vm.go:72` `Run`.
* `blockchain/blockchain.go:1674-1702` the wrapper in `applyTxOnState`; `:1764` `getGasLimit`; `:1755` `GetGasCost`.

A contract execution is an arbitrary list of environment calls (the contract bodies and the wasm interpreter are
*traces*, not models) closed by the method's own verdict.  Balances are `Int` on purpose.  Maps that are only read by
key are functions (`Addr → …`); the contract store also keeps key lists because `Iterate` / `Terminate` enumerate.
-/
namespace IdenaModel.ContractEnv

abbrev Addr := Nat
/-- byte strings as the harness prints them: `x<hex>`, `-` for nil -/
abbrev Bytes := String

def byteLen (b : Bytes) : Nat := (b.length - 1) / 2

/-! ## `vm/costs/costs.go` -/
def ReadGlobalStateGas := 10
def ReadStateGas := 10
def ReadBlockGas := 5
def ReadStatePerByteGas := 10
def WriteStatePerByteGas := 20
def RemoveStateGas := 5
def ReadIdentityStateGas := 1
def ReadBalanceGas := 5
def MoveBalanceGas := 30
def DeployContractGas := 200
def BurnAllGas := 10
def EmitEventPerByteGas := 10
def EmitEventBase := 100
def WasmGasMultiplier := 100
def MaxContractStoreKeyLength := 32

/-- `state.ContractData` -/
structure CData where
  stake : Int
  code : Nat
  deriving DecidableEq, Repr

abbrev SKey := Addr × Bytes

/-- the ledger slice a contract execution can touch -/
structure Base where
  bal : Addr → Int
  con : Addr → Option CData
  store : SKey → Option Bytes
  /-- enumeration order of `StateDB.IterateContractStore` (may list absent keys; readers filter) -/
  keys : List SKey := []
  nonce : Addr → Nat := fun _ => 0
  epoch : Addr → Nat := fun _ => 0
  /-- contracts whose `ContractData.Stake` is a nil `*big.Int` (wasm contracts: `DeployWasmContract` sets no stake).
  Sums treat it as 0; `MoveToStake` dereferences it (`env.go:366`). -/
  stakeNil : Addr → Bool := fun _ => false

def stakeOf : Option CData → Int
  | some d => d.stake
  | none => 0

def upd {α : Type} (f : Addr → α) (a : Addr) (v : α) : Addr → α := fun x => if x = a then v else f x
def updK {α : Type} (f : SKey → α) (k : SKey) (v : α) : SKey → α := fun x => if x = k then v else f x

def Base.addBal (b : Base) (a : Addr) (d : Int) : Base := { b with bal := upd b.bal a (b.bal a + d) }

/-- result of one environment call as the harness records it -/
inductive Res
  | ok | err | oog | panic
  | num (n : Int)
  | val (v : Bytes)
  | kv (k v : Bytes)
  | done
  | env (id : Nat)
  | code (c : Nat)
  | nocode
  | burnt (n : Int)
  | bad
  deriving DecidableEq, Repr

/-! ## Embedded contracts: `EnvImp` -/

inductive ECall
  | rd (gas : Nat)                                   -- BlockNumber, Epoch, State, PubKey, … (no state read we model)
  | set (c : Addr) (k v : Bytes)                     -- `SetValue`
  | get (a : Addr) (k : Bytes)                       -- `GetValue` / `ReadContractData`
  | rm (c : Addr) (k : Bytes)                        -- `RemoveValue`
  | send (c dest : Addr) (amt : Int)                 -- `Send` with `ctx.ContractAddr() = c`
  | bal (a : Addr)                                   -- `Balance`
  | stake (a : Addr)                                 -- `ContractStake`
  | mvstake (c : Addr) (amt : Int)                   -- `MoveToStake`
  | burnAll (c : Addr)
  | event (nameOk : Bool) (size : Nat)
  | deploy (c : Addr) (stake : Int) (code : Nat)     -- `EnvImp.Deploy` called by `vm.deploy`
  | terminate (c dest : Addr) (keep : List Bytes)    -- `EnvImp.Terminate` called by `vm.terminate`
  | iter (c : Addr) (lo hi : Option Bytes)           -- `Iterate`: opens a cursor
  | item                                             -- next callback invocation (or the end of the iteration)
  | itret (stop : Bool)                              -- the callback's return value
  deriving Repr

/-- cursor of one running `Iterate` (`env.go:212-248`): the snapshot of cached keys in range (sorted), the state's
keys in range, the keys already seen in the first phase -/
structure Cursor where
  c : Addr
  phase1 : List Bytes
  phase2 : List Bytes
  seen : List Bytes
  deriving Repr

structure EEnv where
  base : Base
  balC : Addr → Option Int := fun _ => none
  storeC : SKey → Option (Option Bytes) := fun _ => none     -- `some none` = removed
  storeKeys : List SKey := []                                -- keys present in `contractStoreCache`
  deployed : Addr → Option CData := fun _ => none
  dropped : Addr → Bool := fun _ => false
  stakeC : Addr → Option Int := fun _ => none
  events : Nat := 0
  gas : Nat := 0
  limit : Int := 0
  dead : Bool := false          -- a call panicked (out of gas, oversized key, bad event name): the run can only fail
  burnt : Int := 0              -- ghost: coins explicitly destroyed (BurnAll, unrefunded half of a terminated stake)
  minted : Int := 0             -- ghost: stake recorded by `Deploy` (paid by the wrapper on success)
  cursors : List Cursor := []

namespace EEnv

/-- `getBalance` (`env.go:83`) -/
def getBal (e : EEnv) (a : Addr) : Int := (e.balC a).getD (e.base.bal a)
/-- `setBalance` (`env.go:100`) -/
def setBal (e : EEnv) (a : Addr) (v : Int) : EEnv := { e with balC := upd e.balC a (some v) }

/-- `contractStake` (`env.go:338`) -/
def stakeView (e : EEnv) (a : Addr) : Int :=
  match e.deployed a with
  | some d => d.stake
  | none => match e.stakeC a with
    | some s => s
    | none => stakeOf (e.base.con a)

/-- value a read sees (`ReadContractData`, `env.go:257`) -/
def storeView (e : EEnv) (k : SKey) : Option Bytes :=
  match e.storeC k with
  | some r => r
  | none => e.base.store k

/-- `GasCounter.AddGas` (`gas.go:8`): the counter keeps the exceeding value, the call panics -/
def addGas (e : EEnv) (g : Nat) : EEnv × Bool :=
  let e' := { e with gas := e.gas + g }
  if 0 ≤ e.limit ∧ e.limit < ((e.gas + g : Nat) : Int) then ({ e' with dead := true }, false) else (e', true)

def writeStore (e : EEnv) (k : SKey) (v : Option Bytes) : EEnv :=
  { e with storeC := updK e.storeC k (some v), storeKeys := if e.storeKeys.contains k then e.storeKeys else k :: e.storeKeys }

def inRange (k : Bytes) (lo hi : Option Bytes) : Bool :=
  (match lo with | none => true | some l => !decide (k < l)) && (match hi with | none => true | some h => !decide (h < k))

def insertSorted (k : Bytes) : List Bytes → List Bytes
  | [] => [k]
  | h :: t => if h < k then h :: insertSorted k t else k :: h :: t

def sortBytes (l : List Bytes) : List Bytes := l.foldr insertSorted []

/-- keys of contract `c` in the env cache, in range, sorted (`env.go:219-227`) -/
def cachedKeys (e : EEnv) (c : Addr) (lo hi : Option Bytes) : List Bytes :=
  sortBytes ((e.storeKeys.filter fun k => k.1 = c && inRange k.2 lo hi).map (·.2))

/-- keys of contract `c` the state iterator yields, in its order, in range (`statedb.go:1852`) -/
def baseKeys (e : EEnv) (c : Addr) (lo hi : Option Bytes) : List Bytes :=
  ((e.base.keys.filter fun k => k.1 = c && inRange k.2 lo hi && (e.base.store k).isSome).map (·.2)).eraseDups

def openCursor (e : EEnv) (c : Addr) (lo hi : Option Bytes) : Cursor :=
  { c := c, phase1 := e.cachedKeys c lo hi, phase2 := e.baseKeys c lo hi, seen := [] }

/-- advance a cursor to the next entry handed to the callback: returns the entry (or `none` at the end), charging the
read gas of every entry passed (`env.go:232-247`); fuel = remaining keys -/
def advance (e : EEnv) (cur : Cursor) : Nat → EEnv × Cursor × Option (Bytes × Bytes) × Bool
  | 0 => (e, cur, none, true)
  | fuel + 1 =>
    match cur.phase1 with
    | k :: rest =>
      let cur' := { cur with phase1 := rest, seen := k :: cur.seen }
      match e.storeC (cur.c, k) with
      | some (some v) =>
        let (e', ok) := e.addGas (ReadStatePerByteGas * byteLen v)
        if ok then (e', cur', some (k, v), true) else (e', cur', none, false)
      | _ => advance e cur' fuel           -- removed entry: `len(value.value) = 0`, callback skipped
    | [] =>
      match cur.phase2 with
      | k :: rest =>
        let cur' := { cur with phase2 := rest }
        if cur.seen.contains k then advance e cur' fuel else
        match e.base.store (cur.c, k) with
        | some v =>
          let (e', ok) := e.addGas (ReadStatePerByteGas * byteLen v)
          if ok then (e', cur', some (k, v), true) else (e', cur', none, false)
        | none => advance e cur' fuel
      | [] => (e, cur, none, true)

/-- the removal loop of `Terminate` (`env.go:281-294`): every enumerated key not in `keep` is removed -/
def terminateLoop (e : EEnv) (cur : Cursor) (keep : List Bytes) : Nat → EEnv × Bool
  | 0 => (e, true)
  | fuel + 1 =>
    match e.advance cur (cur.phase1.length + cur.phase2.length + 1) with
    | (e1, _, _, false) => (e1, false)
    | (e1, _, none, true) => (e1, true)
    | (e1, cur1, some (k, _), true) =>
      if keep.contains k then terminateLoop e1 cur1 keep fuel else
      let (e2, ok) := (e1.writeStore (cur.c, k) none).addGas RemoveStateGas
      if ok then terminateLoop e2 cur1 keep fuel else (e2, false)

def charge (e : EEnv) (g : Nat) (k : EEnv → EEnv × Res) : EEnv × Res :=
  let (e', ok) := e.addGas g
  if ok then k e' else (e', .oog)

/-- one call on `EnvImp`.  Where the Go code applies the effect before `AddGas` the order is kept (it only matters for
the gas figure: a panic discards the buffers anyway). -/
def step (e : EEnv) : ECall → EEnv × Res
  | .rd g => e.charge g fun e => (e, .ok)
  | .set c k v =>
    if byteLen k > MaxContractStoreKeyLength then ({ e with dead := true }, .panic) else
    (e.writeStore (c, k) (some v)).charge (WriteStatePerByteGas * (byteLen k + byteLen v)) fun e => (e, .ok)
  | .get a k =>
    match e.storeC (a, k) with
    | some none => (e, .val "-")
    | some (some v) => e.charge (ReadStatePerByteGas * byteLen v) fun e => (e, .val v)
    | none =>
      let v := (e.base.store (a, k)).getD "-"
      e.charge (ReadStatePerByteGas * byteLen v) fun e => (e, .val v)
  | .rm c k => (e.writeStore (c, k) none).charge RemoveStateGas fun e => (e, .ok)
  | .send c dest amt =>
    if e.getBal c < amt then (e, .err) else
    if amt < 0 then (e, .err) else
    let e1 := e.setBal c (e.getBal c - amt)
    let e2 := e1.setBal dest (e1.getBal dest + amt)
    e2.charge MoveBalanceGas fun e => (e, .ok)
  | .bal a => e.charge ReadBalanceGas fun e => (e, .num (e.getBal a))
  | .stake a => e.charge ReadStateGas fun e => (e, .num (e.stakeView a))
  | .mvstake c amt =>
    if e.getBal c < amt then (e, .err) else
    if amt < 0 then (e, .err) else
    -- `big.NewInt(0).Add(stake, amount)` with a nil stake (no contract at `c`, or a contract without stake) is a nil
    -- dereference: the call panics (the buffers are discarded, so the debit before it is not kept here)
    if (e.deployed c).isNone && (e.stakeC c).isNone && ((e.base.con c).isNone || e.base.stakeNil c) then
      ({ e with dead := true }, .panic) else
    let e1 := e.setBal c (e.getBal c - amt)
    match e1.deployed c with
    | some d => ({ e1 with deployed := upd e1.deployed c (some { d with stake := d.stake + amt }) }, .ok)
    | none => ({ e1 with stakeC := upd e1.stakeC c (some (e1.stakeView c + amt)) }, .ok)
  | .burnAll c =>
    e.charge BurnAllGas fun e =>
      let b := e.getBal c
      ({ e.setBal c 0 with burnt := e.burnt + b }, .burnt b)
  | .event nameOk size =>
    if !nameOk then ({ e with dead := true }, .panic) else
    e.charge (EmitEventBase + EmitEventPerByteGas * size) fun e => ({ e with events := e.events + 1 }, .ok)
  | .deploy c stake code =>
    let e1 := { e with deployed := upd e.deployed c (some ⟨stake, code⟩), minted := e.minted + (stake - e.stakeView c) }
    e1.charge DeployContractGas fun e => (e, .ok)
  | .terminate c dest keep =>
    let stake := stakeOf (e.base.con c)            -- read from the state, not from the buffers (`env.go:273`)
    if stake = 0 then (e, .ok) else
    let refund := Int.tdiv stake 2
    let e1 := e.setBal dest (e.getBal dest + refund)
    let e2 := { e1 with dropped := upd e1.dropped c true, burnt := e1.burnt + (stake - refund) }
    let cur := e2.openCursor c none none
    let (e3, ok) := e2.terminateLoop cur keep (cur.phase1.length + cur.phase2.length + 1)
    if ok then (e3, .ok) else (e3, .oog)
  | .iter c lo hi => ({ e with cursors := e.openCursor c lo hi :: e.cursors }, .ok)
  | .item =>
    match e.cursors with
    | [] => (e, .bad)
    | cur :: rest =>
      match e.advance cur (cur.phase1.length + cur.phase2.length + 1) with
      | (e1, _, _, false) => ({ e1 with cursors := rest }, .oog)
      | (e1, _, none, true) => ({ e1 with cursors := rest }, .done)
      | (e1, cur1, some (k, v), true) => ({ e1 with cursors := cur1 :: rest }, .kv k v)
  | .itret stop =>
    match e.cursors with
    | [] => (e, .bad)
    | _ :: rest => if stop then ({ e with cursors := rest }, .ok) else (e, .ok)

def run (e : EEnv) : List ECall → EEnv
  | [] => e
  | c :: t => run (e.step c).1 t

/-- contract data after `Commit` (`env.go:308-316`): deployed, then dropped, then the stake cache -/
def conAfter (e : EEnv) (a : Addr) : Option CData :=
  let c1 := match e.deployed a with | some d => some d | none => e.base.con a
  let c2 := if e.dropped a then none else c1
  match e.stakeC a with
  | some s => some ⟨s, match c2 with | some d => d.code | none => 0⟩
  | none => c2

/-- `EnvImp.Commit` (`env.go:296`) -/
def commit (e : EEnv) : Base :=
  { e.base with bal := e.getBal, con := e.conAfter, store := e.storeView, keys := e.storeKeys ++ e.base.keys }

end EEnv

/-! ## Wasm contracts: `WasmEnv` frames -/

inductive WCall
  | rd
  | set (k v : Bytes)                     -- `SetStorage` on the env's own contract
  | get (k : Bytes)                       -- `GetStorage`
  | rcd (a : Addr) (k : Bytes)            -- `ReadContractData`
  | rm (k : Bytes)
  | bal
  | sub (amt : Int)                       -- `SubBalance`
  | add (a : Addr) (amt : Int)            -- `AddBalance`
  | burn (amt : Int)
  | subenv (c : Addr) (pay : Int)         -- `CreateSubEnv`
  | commit
  | deploy (code : Nat)
  | code (a : Addr)                       -- `GetCode`
  | hascode (a : Addr)                    -- `ContractCodeHash`
  | event (nameOk : Bool)
  deriving Repr

/-- one `WasmEnv` with its buffers; `view*` are the values a read through the parent chain sees (parents are idle
while a sub-environment runs, so the chain can be flattened at creation time) -/
structure Frame where
  id : Nat
  contract : Addr
  bal : Addr → Int                      -- `getBalance` through the chain
  store : SKey → Option Bytes           -- `readContractData` through the chain
  code : Addr → Option Nat              -- `GetCode` / `ContractCodeHash` through the chain (`none` = no contract)
  balKeys : List Addr := []             -- own `balancesCache` keys (informational)
  storeKeys : List SKey := []
  events : Nat := 0
  /-- ghost: net coins this chain of environments created (`AddBalance`, sub-env pay amounts) minus removed
  (`SubBalance`) relative to the state at the start of the execution -/
  mint : Int := 0
  /-- ghost: coins destroyed by `Burn` -/
  burnt : Int := 0

structure WEnv where
  base : Base
  /-- live environments, innermost first; the last one is the root (id 1) -/
  stack : List Frame
  next : Nat := 2
  u12 : Bool := true
  commitToState : Bool := true
  /-- ghosts of what reached the state -/
  mint : Int := 0
  burnt : Int := 0
  rootCommits : Nat := 0

namespace WEnv

def codeOfBase (b : Base) (a : Addr) : Option Nat := (b.con a).map (·.code)

def rootFrame (b : Base) (c : Addr) : Frame :=
  { id := 1, contract := c, bal := b.bal, store := b.store, code := codeOfBase b }

/-- drop the environments created after `id` (they can never act again once `id` acts: their Go objects are
unreachable for the runtime, which only holds the current one and its parents) -/
def popTo (id : Nat) : List Frame → List Frame
  | [] => []
  | f :: t => if f.id = id then f :: t else popTo id t

/-- `WasmEnv.Commit` (`wasm_env.go:389`): into the parent, the root into the state -/
def commitTop (w : WEnv) : WEnv :=
  match w.stack with
  | [] => w
  | [f] =>
    if w.commitToState then
      { w with base := { w.base with bal := f.bal, store := f.store, keys := f.storeKeys ++ w.base.keys,
                                     con := fun a => match f.code a with
                                       | some c => some ⟨stakeOf (w.base.con a), c⟩
                                       | none => w.base.con a },
               mint := f.mint, burnt := f.burnt, rootCommits := w.rootCommits + 1 }
    else w
  | f :: p :: rest =>
    let p' := { p with bal := f.bal, store := f.store, code := f.code, balKeys := f.balKeys ++ p.balKeys,
                       storeKeys := f.storeKeys ++ p.storeKeys, events := p.events + f.events,
                       mint := f.mint, burnt := f.burnt }
    let f' := if w.u12 then { f with events := 0 } else f
    { w with stack := f' :: p' :: rest }

def onTop (w : WEnv) (g : Frame → Frame × Res) : WEnv × Res :=
  match w.stack with
  | [] => (w, .bad)
  | f :: rest => let (f', r) := g f; ({ w with stack := f' :: rest }, r)

/-- `GetCode` (`wasm_env.go:319`, `statedb.go:1836 GetContractCode`): the code stored under the contract's code hash.
The hashes of the embedded contract types (numbered below 100 by the harness) have no stored code. -/
def codeBlob (c : Nat) : Nat := if c < 100 then 0 else c

/-- one host call on the innermost live environment -/
def stepTop (w : WEnv) (c : WCall) : WEnv × Res :=
  match w.stack with
  | [] => (w, .bad)
  | top :: _ =>
  match c with
  | .rd => (w, .ok)
  | .set k v => w.onTop fun f => ({ f with store := updK f.store (f.contract, k) (some v), storeKeys := (f.contract, k) :: f.storeKeys }, .ok)
  | .get k => (w, .val ((top.store (top.contract, k)).getD "-"))
  | .rcd a k => (w, .val ((top.store (a, k)).getD "-"))
  | .rm k => w.onTop fun f => ({ f with store := updK f.store (f.contract, k) none, storeKeys := (f.contract, k) :: f.storeKeys }, .ok)
  | .bal => (w, .num (top.bal top.contract))
  | .sub amt =>
    if amt < 0 then (w, .err) else
    if top.bal top.contract < amt then (w, .err) else
    w.onTop fun f => ({ f with bal := upd f.bal f.contract (f.bal f.contract - amt), balKeys := f.contract :: f.balKeys, mint := f.mint - amt }, .ok)
  | .add a amt => w.onTop fun f => ({ f with bal := upd f.bal a (f.bal a + amt), balKeys := a :: f.balKeys, mint := f.mint + amt }, .ok)
  | .burn amt =>
    if amt < 0 then (w, .err) else
    if top.bal top.contract < amt then (w, .err) else
    w.onTop fun f => ({ f with bal := upd f.bal f.contract (f.bal f.contract - amt), balKeys := f.contract :: f.balKeys, burnt := f.burnt + amt }, .ok)
  | .subenv c pay =>
    if w.stack.length > 16 then (w, .err) else      -- `w.id > maxDepth`: `id` is the nesting depth
    if pay < 0 then (w, .err) else
    let f : Frame := { id := w.next, contract := c, bal := upd top.bal c (top.bal c + pay), store := top.store, code := top.code,
                       balKeys := [c], mint := top.mint + pay, burnt := top.burnt }
    ({ w with stack := f :: w.stack, next := w.next + 1 }, .env f.id)
  | .commit => (w.commitTop, .ok)
  | .deploy code => w.onTop fun f => ({ f with code := upd f.code f.contract (some code) }, .ok)
  | .code a => (w, .code (codeBlob ((top.code a).getD 0)))
  | .hascode a => (w, match top.code a with | some c => .code c | none => .nocode)
  | .event nameOk =>
    if !nameOk then (w, .panic) else w.onTop fun f => ({ f with events := f.events + 1 }, .ok)

/-- one host call on environment `id` -/
def step (w : WEnv) (id : Nat) (c : WCall) : WEnv × Res := stepTop { w with stack := popTo id w.stack } c

def run (w : WEnv) : List (Nat × WCall) → WEnv
  | [] => w
  | (id, c) :: t => run (w.step id c).1 t

def rootEvents (w : WEnv) : Nat :=
  match w.stack.getLast? with
  | some f => f.events
  | none => 0

end WEnv

/-! ## The wrapper: `applyTxOnState`, contract branch (`blockchain.go:1674-1702`) and its suffix (`:1728-1735`) -/

inductive Kind | deploy | call | terminate
  deriving DecidableEq, Repr

structure TxIn where
  kind : Kind
  wasm : Bool                -- `vm.IsWasm(tx)`
  snd : Addr
  c : Addr                   -- `vm.ContractAddr(tx, sender)`
  amt : Nat
  tips : Nat
  maxFee : Nat
  txFee : Nat                -- `getTxFee` (size based; an input)
  fpg : Nat                  -- `FeePerGas`
  u11 : Bool := true
  nonce : Nat := 0
  epoch : Nat := 0
  deriving Repr

/-- `decimal.Div` with `DivisionPrecision = 16` (round half away from zero) followed by `math.ToInt` (truncate),
for a non-negative numerator and positive denominator -/
def decDivTrunc (a b : Nat) : Nat :=
  let q := a * 10 ^ 16 / b
  let r := a * 10 ^ 16 % b
  (if 2 * r ≥ b then q + 1 else q) / 10 ^ 16

/-- same for a negative numerator `-(a)`: the quotient is rounded away from zero, `big.Int.Quo` truncates -/
def decDivTruncNeg (a b : Nat) : Int := - (decDivTrunc a b : Int)

/-- `getGasLimit` (`blockchain.go:1764`, since fix 8023026d): `new(big.Int).Quo(diff, oneGasCost)` — the whole number
of gas units the remaining fee buys (`Quo` truncates toward zero; `diff < 0` cannot pass validation) -/
def gasLimit (t : TxIn) : Int :=
  if t.fpg = 0 then 0 else Int.tdiv ((t.maxFee : Int) - (t.txFee : Int)) (t.fpg : Int)

/-- `getGasLimit` as found before fix 8023026d: `decimal.NewFromBigInt(diff, 0).Div(oneGasCost)` (16 fractional digits,
half-up) then `math.ToInt` (truncate).  Kept as a flagged variant: `Props/C15.lean` proves it over-grants from
`2·10¹⁶` per gas unit on. -/
def gasLimitAsFound (t : TxIn) : Int :=
  if t.fpg = 0 then 0 else
  if t.txFee ≤ t.maxFee then (decDivTrunc (t.maxFee - t.txFee) t.fpg : Nat) else decDivTruncNeg (t.txFee - t.maxFee) t.fpg

/-- `GetGasCost` (`blockchain.go:1755`) -/
def gasCost (fpg gasUsed : Nat) : Nat := fpg * gasUsed

/-- `shouldAddPayAmount` (`blockchain.go:1677`) -/
def TxIn.pay (t : TxIn) : Bool := decide (t.amt > 0) && (t.kind = .call || t.wasm)

/-- receipt gas of the embedded path (`vm.go:206-209`) -/
def usedGasE (used : Nat) (limit : Int) : Nat := if 0 ≤ limit then min used limit.toNat else used

/-- receipt gas of the wasm path (`wasm/vm.go:94-98`, limit converted by `GasToWasmGas` in `vm.go:187`) -/
def usedGasW (raw : Nat) (limit : Int) : Nat := min raw (limit.toNat * WasmGasMultiplier) / WasmGasMultiplier

structure Receipt where
  success : Bool
  gasUsed : Nat
  gasCost : Nat
  fee : Nat
  events : Nat
  /-- ghosts (not receipt fields): coins explicitly destroyed / net coins created by host calls, as far as they
  reached the state -/
  burnt : Int := 0
  mint : Int := 0
  deriving DecidableEq, Repr

/-- move the pay amount before the run (`:1681-1685`) -/
def prePay (t : TxIn) (b : Base) : Base :=
  if t.pay then (b.addBal t.snd (-(t.amt : Int))).addBal t.c t.amt else b

/-- after the run (`:1693-1701`) and the common suffix (`:1728-1735`) -/
def settle (t : TxIn) (b : Base) (success : Bool) (gasUsed events : Nat) (burnt mint : Int := 0) : Base × Receipt :=
  let b1 := if !success && t.pay then (b.addBal t.snd t.amt).addBal t.c (-(t.amt : Int)) else b
  let b2 := if success && !t.pay && (t.kind ≠ .terminate || t.u11) then b1.addBal t.snd (-(t.amt : Int)) else b1
  let gc := gasCost t.fpg gasUsed
  let fee := t.txFee + gc
  let b3 := (b2.addBal t.snd (-(fee : Int))).addBal t.snd (-(t.tips : Int))
  ({ b3 with nonce := upd b3.nonce t.snd t.nonce, epoch := upd b3.epoch t.snd t.epoch },
   { success := success, gasUsed := gasUsed, gasCost := gc, fee := fee, events := if success then events else 0,
     burnt := burnt, mint := mint })

/-- embedded contract transaction: `trace` is what the method did, `verdict` whether it returned no error -/
def applyE (t : TxIn) (b : Base) (trace : List ECall) (verdict : Bool) : Base × Receipt :=
  let b1 := prePay t b
  let e := EEnv.run { base := b1, limit := gasLimit t } trace
  let success := verdict && !e.dead
  let b2 := if success then e.commit else b1
  settle t b2 success (usedGasE e.gas (gasLimit t)) e.events (if success then e.burnt else 0) 0

/-- wasm contract transaction: `raw` is the gas figure the runtime reports (an input), the final `InternalCommit`
(`wasm/vm.go:90-92`) is part of the trace when it happened -/
def applyW (t : TxIn) (b : Base) (trace : List (Nat × WCall)) (verdict : Bool) (raw : Nat) : Base × Receipt :=
  let b1 := prePay t b
  let w := WEnv.run { base := b1, stack := [WEnv.rootFrame b1 t.c] } trace
  settle t w.base verdict (usedGasW raw (gasLimit t)) w.rootEvents w.burnt w.mint

end IdenaModel.ContractEnv
