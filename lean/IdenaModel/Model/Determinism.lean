/-!
# M-Determinism — the places where idena-go's state transition is not obviously a function (C01)

Every Lean function is a function, so the content of C01 is exactly the places where the Go code depends on
something node-local.  Each of them is modelled here with the node-local input made explicit:

* `enum : List Nat` — an arbitrary enumeration order of a Go map / `mapset.Set` (Go randomises it);
* `off : Int` — the zone offset (seconds east of UTC) of the `time.Time` value handed to the date logic.

Keys (addresses, contract-store keys, heights, code hashes, shard ids) are `Nat`: the harness embeds byte strings
order-preservingly.  Core Lean only (compiled into `oracle_c01`).

(a) `precommitOps`            core/state/statedb.go:1336 `StateDB.Precommit`, identity_statedb.go:181
(b) `insertAsc`/`isort`       blockchain/blockchain.go:578 `addStaker`, :1343 `sortAddresses`,
                              blockchain/rewards.go:216 `addAuthor`, :468 `addInviter`
    `insertDesc`/`isortDesc`  core/validators/validators.go:477 `sortedAddresses.add`
(c) `applyOnState`/`applyEpoch`  core/ceremony/ceremony.go:953, :1220-1267
(d) `payCommittee`            blockchain/blockchain.go:1279 `rewardFinalCommittee`
(e) `weekday`/`normalizedEpochDays`/`nextValidation`  common/network.go:79, config/validation.go:25
(f) `writeKV`/`addKV`         per-key writes and commutative additions (vm/env/env.go:304 `Commit`, rewards)
(h) `iterate`                 core/state/statedb.go:1852 `IterateContractStore`, vm/env/env.go:220 `Iterate`
-/
namespace IdenaModel.Determinism

/-! ## (b) sorted insertion -/

/-- `addStaker` / `addAuthor` / `addInviter` / `sortAddresses.addAddress`:
`index := sort.Search(len(data), func(i) { data[i] > elem })`, then insert at `index` — ascending, after equal
elements.  (`sort.Search` returns the least index at which a monotone predicate holds; on the sorted prefix the
code maintains that is the linear-scan position used here.) -/
def insertAsc (a : Nat) : List Nat → List Nat
  | [] => [a]
  | b :: bs => if a < b then a :: b :: bs else b :: insertAsc a bs

/-- the slice built by the loop `for _, item := range set.ToSlice() { res = addX(res, item) }` -/
def isort (enum : List Nat) : List Nat := enum.foldl (fun acc a => insertAsc a acc) []

/-- `sortedAddresses.add` (validators.go:477): descending, duplicates dropped. Also the order `sort.Slice` with
`bytes.Compare(a, b) == 1` establishes in `getOrderedObjectsKeys` (statedb.go:1457). -/
def insertDesc (a : Nat) : List Nat → List Nat
  | [] => [a]
  | b :: bs => if b < a then a :: b :: bs else if b = a then b :: bs else b :: insertDesc a bs

def isortDesc (enum : List Nat) : List Nat := enum.foldl (fun acc a => insertDesc a acc) []

/-! ## (a) ordered commit of dirty objects -/

/-- one IAVL tree operation issued by `Precommit` (the value is whatever the object encodes to) -/
inductive TreeOp where
  | set (kind : Nat) (key : Nat) (val : Nat)
  | remove (kind : Nat) (key : Nat)
  deriving DecidableEq, Repr

/-- The live objects of one kind as `Precommit` sees them: for a dirty key, `none` = "empty, delete it"
(`deleteEmptyObjects && stateObject.empty()`, after `identityUpdateHook` ran on it), `some v` = encoded value.
The object is looked up by key *after* sorting (`stateObject := s.stateAccounts[addr]`), so the op is a function of
the key. -/
abbrev Objs := Nat → Option Nat

def opOf (kind : Nat) (objs : Objs) (k : Nat) : TreeOp :=
  match objs k with
  | none => .remove kind k
  | some v => .set kind k v

/-- tree ops of one dirty set, `enum` = Go's enumeration of the dirty map -/
def commitOps (kind : Nat) (objs : Objs) (enum : List Nat) : List TreeOp :=
  (isortDesc enum).map (opOf kind objs)

/-- the enumerations `Precommit` performs (five Go maps) and the singleton objects written last -/
structure Dirty where
  accounts : List Nat      -- stateAccountsDirty
  identities : List Nat    -- stateIdentitiesDirty
  store : List Nat         -- contractStoreCache keys
  burnt : List Nat         -- stateBurntCoinsDirty
  code : List Nat          -- contractCodeCache keys

structure Live where
  accounts : Objs
  identities : Objs
  store : Objs
  burnt : Objs
  code : Objs
  singletons : List TreeOp  -- global, status switch, delegation switch, delayed penalties, discrimination switch: fixed order

/-- `StateDB.Precommit` (statedb.go:1336-1449): the exact sequence of tree operations.  An IAVL tree's shape, hence its
root hash, depends on this sequence, not only on the resulting key set. -/
def precommitOps (live : Live) (d : Dirty) : List TreeOp :=
  commitOps 0 live.accounts d.accounts ++ commitOps 1 live.identities d.identities ++
  commitOps 2 live.store d.store ++ commitOps 3 live.burnt d.burnt ++ commitOps 4 live.code d.code ++
  live.singletons

/-- `IdentityStateDB.Precommit` (identity_statedb.go:181) -/
def identityPrecommitOps (objs : Objs) (enum : List Nat) : List TreeOp := commitOps 5 objs enum

/-- `prepareBlockRewardCtx` (blockchain.go:569-586): committee in address order, each holder a function of its address -/
def committee {β : Type} (holderOf : Nat → β) (enum : List Nat) : List β := (isort enum).map holderOf

/-! ## (f) per-key writes and commutative additions -/

/-- a store as a total function; `writeKV` = `SetBalance(addr, b)` / `SetContractValue(k, v)` / `m[k] = v` -/
def writeKV {V : Type} (s : Nat → V) (kv : Nat × V) : Nat → V := fun x => if x = kv.1 then kv.2 else s x

/-- `AddBalance(addr, amount)` / `AddStake`: integer addition into the slot -/
def addKV (s : Nat → Int) (kv : Nat × Int) : Nat → Int := fun x => if x = kv.1 then s x + kv.2 else s x

/-- `delete(m, k)` / set difference -/
def delK {V : Type} (s : Nat → Option V) (k : Nat) : Nat → Option V := fun x => if x = k then none else s x

/-! ## (c) epoch result application -/

/-- the part of `state.Identity` that `applyOnState`'s delegation clause reads and writes -/
structure IdRec where
  validated : Bool := false          -- State.NewbieOrBetter()
  delegatee : Option Nat := none
  delegationEpoch : Nat := 0
  pendingUndelegation : Bool := false
  undelegationEpoch : Nat := 0
  deriving DecidableEq, Repr

/-- association list keyed by address; `setRec` replaces in place, so the key order never changes -/
abbrev IdState := List (Nat × IdRec)

def getRec (s : IdState) (a : Nat) : IdRec :=
  match s.find? (·.1 = a) with
  | some p => p.2
  | none => {}

def setRec : IdState → Nat → IdRec → IdState
  | [], a, r => [(a, r)]
  | (b, rb) :: t, a, r => if b = a then (a, r) :: t else (b, rb) :: setRec t a r

/-- `cacheValue` (ceremony.go:105), reduced to what the delegation clause uses -/
structure EpochVal where
  validated : Bool            -- value.state.NewbieOrBetter()
  prevNonValidated : Bool     -- value.prevState ∈ {Suspended, Zombie, Candidate}
  delegatee : Option Nat      -- identity.Delegatee() when the value was computed
  deriving DecidableEq, Repr

/-- `Identity.Delegatee()` (state_object.go:631): hidden while an (old-style) undelegation is pending -/
def IdRec.delegateeView (r : IdRec) : Option Nat := if r.pendingUndelegation then none else r.delegatee

/-- `applyOnState` (ceremony.go:953-1030), delegation part:
`SetState`; then, for an identity promoted from Suspended/Zombie/Candidate that has a delegatee, *read the
delegatee's own delegatee in the current state* and, if there is one, drop this identity's delegation —
Upgrade10: `RemoveDelegatee`, `SetDelegationEpoch 0`, `RemovePendingUndelegation`, `SetUndelegationEpoch epoch`;
before: `SetDelegationEpoch epoch`, `SetPendingUndelegation`. -/
def applyOnState (u10 : Bool) (epoch : Nat) (s : IdState) (a : Nat) (v : EpochVal) : IdState :=
  let r := { getRec s a with validated := v.validated }
  let s := setRec s a r
  if v.validated && v.prevNonValidated then
    match v.delegatee with
    | none => s
    | some d =>
      match (getRec s d).delegateeView with
      | none => s
      | some _ =>
        if u10 then
          setRec s a { r with delegatee := none, delegationEpoch := 0, pendingUndelegation := false,
                               undelegationEpoch := epoch }
        else
          setRec s a { r with delegationEpoch := epoch, pendingUndelegation := true }
  else s

/-- `epochApplyingValues` as a lookup; an address without a value is skipped (cannot happen: the order lists the keys) -/
abbrev EpochVals := List (Nat × EpochVal)

def valOf (vals : EpochVals) (a : Nat) : Option EpochVal := (vals.find? (·.1 = a)).map (·.2)

/-- the loop `for addr … { applyOnState(…, addr, epochApplyingValues[addr]) }` over a given order of the keys -/
def applyEpoch (u10 : Bool) (epoch : Nat) (vals : EpochVals) (s : IdState) (order : List Nat) : IdState :=
  order.foldl (fun s a => match valOf vals a with
    | some v => applyOnState u10 epoch s a v
    | none => s) s

/-- as found: `for addr, value := range epochApplyingValues` — the order is Go's map enumeration -/
def applyEpochAsFound (u10 : Bool) (epoch : Nat) (vals : EpochVals) (s : IdState) (enum : List Nat) : IdState :=
  applyEpoch u10 epoch vals s enum

/-- repaired (ceremony.go:1220-1241): keys collected from the map, sorted by address, then applied -/
def applyEpochFixed (u10 : Bool) (epoch : Nat) (vals : EpochVals) (s : IdState) (enum : List Nat) : IdState :=
  applyEpoch u10 epoch vals s (isort enum)

/-- the non-candidates pass (ceremony.go:1243-1267): shards in id order, each shard's `nonCandidates` slice in its own
order; the value is computed from the state at that moment with `prevState` unset (`Undefined`), so the delegation
clause never fires — only `SetState`. -/
def applyNonCandidates (validatedOf : IdRec → Bool) (nonCands : Nat → List Nat) (s : IdState) (shardEnum : List Nat) : IdState :=
  (isort shardEnum).foldl (fun s sh =>
    (nonCands sh).foldl (fun s a => let r := getRec s a; setRec s a { r with validated := validatedOf r }) s) s

def applyEpochFull (u10 : Bool) (epoch : Nat) (vals : EpochVals) (validatedOf : IdRec → Bool) (nonCands : Nat → List Nat)
    (s : IdState) (candEnum shardEnum : List Nat) : IdState :=
  applyNonCandidates validatedOf nonCands (applyEpochFixed u10 epoch vals s candEnum) shardEnum

/-! ## (d) final committee rewards -/

/-- `rewardFinalCommittee` (blockchain.go:1279-1341): `wanted` = `⌊rewardShare · stakeWeight⌋` of the members in
committee (address) order; each is capped by what is left of `BlockReward + FinalCommitteeReward`.
Returns (payments, remaining). -/
def payCommittee : List Nat → Nat → List Nat × Nat
  | [], remaining => ([], remaining)
  | w :: ws, remaining =>
    let p := if w > remaining then remaining else w
    let r := payCommittee ws (remaining - p)
    (p :: r.1, r.2)

def paidTotal (wanted : List Nat) (pool : Nat) : Nat := (payCommittee wanted pool).1.foldl (· + ·) 0

/-! ## (e) next validation time -/

/-- `time.Time.Weekday()` of the instant `unix` shown in a zone `off` seconds east of UTC: 0 = Sunday … 6 = Saturday
(1970-01-01 was a Thursday).  `Int` division is floor division, as in Go's absolute-time arithmetic. -/
def weekday (unix off : Int) : Int := ((unix + off) / 86400 + 4) % 7

def hourOf (unix off : Int) : Int := ((unix + off) / 3600) % 24
def minuteOf (unix off : Int) : Int := ((unix + off) / 60) % 60

/-- `2^100 · n^33`, compared with `(2d±1)^100` to decide `round(n^0.33)` in integers -/
def scaled33 (n : Nat) : Nat := 2 ^ 100 * n ^ 33

def firstBelow (x : Nat) (bound : Nat → Nat) : Nat → Nat → Nat
  | 0, d => d
  | fuel + 1, d => if x < bound d then d else firstBelow x bound fuel (d + 1)

/-- `common.NetworkParams(n).epochDuration = int(math.Round(math.Pow(float64(n), 0.33)))` (network.go:72), in integers:
the `d` with `(2d-1)^100 ≤ 2^100·n^33 < (2d+1)^100`; `n = 0 ↦ 1`.  Compared with the real function by the `np` table lines. -/
def epochDaysOf (n : Nat) : Nat :=
  if n = 0 then 1 else firstBelow (scaled33 n) (fun d => (2 * d + 1) ^ 100) 4096 0

/-- `math2.MinInt(28, int(math.Round(math.Pow(n, 0.33)/21)*21))` (network.go:113): `k = round(x/21)` is the `k` with
`(42k-21)^100 ≤ 2^100·n^33 < (42k+21)^100` -/
def satDaysOf (n : Nat) : Nat :=
  let k := firstBelow (scaled33 n) (fun k => (42 * k + 21) ^ 100) 4096 0
  if 21 * k < 28 then 21 * k else 28

/-- `common.NormalizedEpochDuration` (network.go:79-114) in days, clause by clause; `wd` = the weekday the code
looks at, `base` = `NetworkParams(n).epochDuration`, `satDays` = the float clause of the last line. -/
def normalizedEpochDays (base : Nat) (wd : Int) (u12 : Bool) (satDays : Nat) : Nat :=
  if u12 then
    if base < 7 then base
    else
      let nd := if base < 18 then 14 else if base < 25 then 21 else 28
      if wd ≠ 6 then (if wd ≥ 3 then nd + 1 else nd - 1) else nd
  else if base < 21 then base
  else if wd ≠ 6 then 20
  else satDays

/-- `ValidationConfig.GetNextValidationTime` (validation.go:25-37) as unix seconds; `interval` = configured
`ValidationInterval` in seconds (0 = unset), `wd` = the weekday `NormalizedEpochDuration` uses. -/
def nextValidationWith (wd : Int) (ts : Int) (base : Nat) (u12 : Bool) (satDays : Nat) (interval : Nat) : Int :=
  if interval > 0 then ts + interval
  else
    let r := ts + 86400 * (normalizedEpochDays base wd u12 satDays : Nat)
    -- "Temporary code to change the time of validation ceremony from 13:30 UTC to 15:00 UTC"
    if u12 && hourOf r 0 == 13 && minuteOf r 0 == 30 then r + 5400 else r

/-- a Go `time.Time`: an instant plus the zone it is displayed in (`off` seconds east of UTC) -/
structure GoTime where
  unix : Int
  off : Int
  deriving DecidableEq, Repr

/-- `t.UTC()`: the same instant, displayed in UTC -/
def GoTime.utc (t : GoTime) : GoTime := { t with off := 0 }
/-- `t.Weekday()` -/
def GoTime.weekday (t : GoTime) : Int := IdenaModel.Determinism.weekday t.unix t.off

/-- repaired code (network.go:82): `validationTime = validationTime.UTC()` first, so the zone of the argument is dropped -/
def nextValidation_fixed (ts off : Int) (base : Nat) (u12 : Bool) (satDays : Nat) (interval : Nat) : Int :=
  let t : GoTime := (GoTime.mk ts off).utc
  nextValidationWith t.weekday t.unix base u12 satDays interval

/-- code as found: `validationTime.Weekday()` of `time.Unix(ts, 0)`, i.e. in the host's zone -/
def nextValidation_asFound (ts off : Int) (base : Nat) (u12 : Bool) (satDays : Nat) (interval : Nat) : Int :=
  let t : GoTime := GoTime.mk ts off
  nextValidationWith t.weekday t.unix base u12 satDays interval

def epochDays_fixed (ts off : Int) (base : Nat) (u12 : Bool) (satDays : Nat) : Nat :=
  normalizedEpochDays base (GoTime.mk ts off).utc.weekday u12 satDays

def epochDays_asFound (ts off : Int) (base : Nat) (u12 : Bool) (satDays : Nat) : Nat :=
  normalizedEpochDays base (GoTime.mk ts off).weekday u12 satDays

/-! ## (h) contract store iteration -/

/-- a value of `contractStoreCache`: written or removed earlier in the same block -/
structure CacheVal where
  removed : Bool
  value : Nat
  deriving DecidableEq, Repr

/-- walk of the cached keys (statedb.go:1874-1881, env.go:236-244): `pre` is what happens for every cached key
(`gasCounter.AddGas(ReadStatePerByteGas * len(value))` in env.go), then the callback unless removed; the callback
returns the new observable state (events, transfers, gas) and whether to stop. -/
def iterCache {σ : Type} (pre : σ → Nat → CacheVal → σ) (f : σ → Nat → Nat → σ × Bool) (cache : Nat → CacheVal) :
    List Nat → σ → σ × Bool
  | [], s => (s, false)
  | k :: rest, s =>
    let v := cache k
    let s := pre s k v
    if v.removed then iterCache pre f cache rest s
    else
      let r := f s k v.value
      if r.2 then (r.1, true) else iterCache pre f cache rest r.1

/-- then the committed tree in key order, skipping keys already seen in the cache -/
def iterTree {σ : Type} (f : σ → Nat → Nat → σ × Bool) (seen : List Nat) : List (Nat × Nat) → σ → σ
  | [], s => s
  | (k, v) :: rest, s =>
    if seen.contains k then iterTree f seen rest s
    else
      let r := f s k v
      if r.2 then r.1 else iterTree f seen rest r.1

/-- what a contract's iteration callback does to the observable state, given the order in which the cached keys are
visited -/
def iterate {σ : Type} (pre : σ → Nat → CacheVal → σ) (f : σ → Nat → Nat → σ × Bool) (cache : Nat → CacheVal)
    (tree : List (Nat × Nat)) (order : List Nat) (s : σ) : σ :=
  let r := iterCache pre f cache order s
  if r.2 then r.1 else iterTree f order tree r.1

/-- as found: `for key, value := range s.contractStoreCache` -/
def iterateAsFound {σ : Type} (pre : σ → Nat → CacheVal → σ) (f : σ → Nat → Nat → σ × Bool) (cache : Nat → CacheVal)
    (tree : List (Nat × Nat)) (enum : List Nat) (s : σ) : σ := iterate pre f cache tree enum s

/-- repaired: `sort.Strings(cachedKeys)` first -/
def iterateFixed {σ : Type} (pre : σ → Nat → CacheVal → σ) (f : σ → Nat → Nat → σ × Bool) (cache : Nat → CacheVal)
    (tree : List (Nat × Nat)) (enum : List Nat) (s : σ) : σ := iterate pre f cache tree (isort enum) s

end IdenaModel.Determinism
