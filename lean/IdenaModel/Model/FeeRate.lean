/-
M-FeeRate (C01 next-block parameters, C03 derived header field `FeePerGas`): `calculateNextBlockFeePerGas`
(blockchain.go:1787) and `fee.GetFeePerGasForNetwork` (blockchain/fee/fee_calc.go:26), with the decimal arithmetic they use
(shopspring/decimal: `Div` = `DivRound(_, 16)`, round half away from zero; `Mul`/`Add`/`Sub` exact; `math.ToInt` truncates
toward zero).  All quantities are non-negative here, so `Nat` with explicit scales suffices except for the signed load
term.  Core Lean only.
-/
namespace IdenaModel.FeeRate

/-- 10^16: the scale of a quotient produced by `Decimal.Div` -/
def S16 : Nat := 10000000000000000

/-- `a.Div(b)` for non-negative decimals with integer coefficients `a`, `b`, as a multiple of 10^-16:
`QuoRem` at 16 places, then one unit more when twice the remainder reaches the divisor -/
def divRound16 (a b : Nat) : Nat :=
  let q := a * S16 / b
  let r := a * S16 % b
  if 2 * r ≥ b then q + 1 else q

/-- `MinFeePerGas` (fee_calc.go:23) -/
def absoluteMin : Nat := 10

/-- `GetFeePerGasForNetwork(networkSize)`: 0.01 / n (16 places) × 10^18, at least 10 -/
def minFee (networkSize : Nat) : Nat :=
  let n := if networkSize = 0 then 1 else networkSize
  -- 0.01 / n = (1 / n) · 10^-2 : the quotient is taken on the coefficient 1 at 16 places below the exponent -2,
  -- i.e. 10^14 / n rounded half up, in units of 10^-16; times 10^18 gives ·100
  let q := 100000000000000 / n
  let r := 100000000000000 % n
  let q' := if 2 * r ≥ n then q + 1 else q
  Nat.max (q' * 100) absoluteMin

/-- `calculateNextBlockFeePerGas`: `kNum / kScale` is the sensitivity coefficient as the decimal `NewFromFloat32(k)`
(0.25 = 25/100), `maxGas` the block gas cap, `usedGas` the gas of the block, `prev` the fee rate in the state. -/
def nextFee (prev usedGas maxGas kNum kScale networkSize : Nat) : Nat :=
  let mn := minFee networkSize
  let fee0 := if prev = 0 ∨ prev < mn then mn else prev
  let load : Int := (divRound16 usedGas maxGas : Int) - 5000000000000000      -- usedGas/maxGas − 0.5, scale 10^16
  let factor : Int := load * kNum + (S16 * kScale : Nat)                      -- 1 + k·load, scale 10^16·kScale
  let scaled : Int := factor * fee0
  let newFee : Int := Int.tdiv scaled (S16 * kScale : Nat)                    -- math.ToInt: truncation toward zero
  if newFee < mn then mn else newFee.toNat

end IdenaModel.FeeRate
