/-!
# M-Messages — what the node does with a network message before any semantic check (C12)

Sources (all in /repo): `protocol/peer.go` (`Decode`, `ReadMsg`), `protocol/gossip.go:199 handle`,
`protocol/types.go`, `protocol/batch.go`, `protocol/pushpull.go`, `blockchain/types/types.go`
(`FromBytes` shapes, `IsValid` gates, accessors), `blockchain/blockchain.go:2304 validateBlock`,
`consensus/fork_resolver.go:73 processBlocks` / `:116 checkForkSize`.

Go pointers that a decoder can leave nil are `Option`s.  A dereference the Go code performs is an explicit
`R.panic` / `Outcome.panic`; nothing is totalised away.  What a message *means* (signatures, VRF proofs, state
lookups) is abstracted into Boolean parameters: they decide accept/reject, never whether a pointer is followed.

Every accessor that can panic is tagged with the Go function and the optional field it selects through
(`modelledSites`): the harness recomputes the list of such (function, field) pairs from /repo's source on every
run and the driver checks it against this table (`Drivers/C12.lean`, lines `site …`).
-/
namespace IdenaModel.Msg

/-- result of an accessor: a value, or the nil dereference the Go code performs -/
inductive R (α : Type) where
  | val (a : α)
  | panic
  deriving Repr, DecidableEq

def R.bind {α β : Type} : R α → (α → R β) → R β
  | .val a, f => f a
  | .panic, _ => .panic

def two64 : Nat := 18446744073709551616

/-- `x - 1` on `uint64` -/
def pred64 (x : Nat) : Nat := (x % two64 + two64 - 1) % two64

/-! ## Wire objects as the decoders leave them (`types.go`) -/

structure EHdr where                 -- `EmptyBlockHeader` :104
  height : Nat
  deriving Repr, DecidableEq

structure PHdr where                 -- `ProposedHeader` :114
  height : Nat
  deriving Repr, DecidableEq

structure Header where               -- `Header` :133, both parts optional (`FromProto` :508)
  empty : Option EHdr
  proposed : Option PHdr
  deriving Repr, DecidableEq

structure Block where                -- `Block` :149 (`FromBytes` :479 sets each part only if present)
  header : Option Header
  body : Option Nat                  -- `Body` present with n transactions
  deriving Repr, DecidableEq

/-- `(*Header).IsValid` :652 — nil-safe receiver -/
def Header.isValid : Option Header → Bool
  | none => false
  | some h => (h.empty.isNone && h.proposed.isSome) || (h.empty.isSome && h.proposed.isNone)

/-- `(*Header).Height` :565 on a possibly nil receiver -/
def Header.height : Option Header → R Nat
  | none => .panic                                   -- h.ProposedHeader on nil h
  | some h => match h.proposed with
    | some p => .val p.height
    | none => match h.empty with
      | some e => .val e.height
      | none => .panic                               -- h.EmptyBlockHeader.Height

/-- `(*Header).Hash` :558 (and `ParentHash` :572, same shape) -/
def Header.hash : Option Header → R Unit
  | none => .panic
  | some h => match h.proposed with
    | some _ => .val ()
    | none => match h.empty with
      | some _ => .val ()
      | none => .panic                               -- (*EmptyBlockHeader)(nil).Hash → ToProto → h.ParentHash

/-- `(*Header).Flags/Seed/Root/Time/…` :579-633 (the `EmptyBlockHeader != nil … else ProposedHeader.X` shape) -/
def Header.viaEmptyFirst : Option Header → R Unit
  | none => .panic
  | some h => match h.empty with
    | some _ => .val ()
    | none => match h.proposed with
      | some _ => .val ()
      | none => .panic

/-- `(*Block).IsEmpty` :438 -/
def Block.isEmpty (b : Block) : Bool :=
  match b.header with
  | none => false
  | some h => h.empty.isSome

/-- `(*Block).IsValid` :442 = `b.Header.IsValid() && b.Body.IsValid()` (both nil-safe, `Body.IsValid` :1068) -/
def Block.isValid (b : Block) : Bool := Header.isValid b.header && b.body.isSome

/-- `(*Block).Height` :450 -/
def Block.height (b : Block) : R Nat :=
  if b.isEmpty then
    match b.header with
    | some h => (match h.empty with | some e => .val e.height | none => .panic)
    | none => .panic
  else
    match b.header with
    | none => .panic                                 -- b.Header.ProposedHeader on nil Header
    | some h => match h.proposed with
      | some p => .val p.height
      | none => .panic                               -- b.Header.ProposedHeader.Height

/-- `(*Block).Hash` :417 = `b.Header.Hash()` -/
def Block.hash (b : Block) : R Unit := Header.hash b.header

/-- `BlockProposal` :211 — `FromBytes` :1148 leaves `Block` nil when the `data` member is absent -/
structure Proposal where
  block : Option Block
  sigLen : Nat
  /-- `Ecrecover` over the proposal hash succeeds (parameter) -/
  sigRecovers : Bool
  /-- the recovered key equals `Header.ProposedHeader.ProposerPubKey` (parameter) -/
  keyMatches : Bool
  deriving Repr, DecidableEq

/-- `(*BlockProposal).IsValid` :1167, with the dereference at :1175 explicit -/
def Proposal.isValid (p : Proposal) : R Bool :=
  match p.block with
  | none => .val false
  | some b =>
    if p.sigLen = 0 || !b.isValid || b.isEmpty then .val false
    else if !p.sigRecovers then .val false
    else match b.header with                         -- p.Block.Header.ProposedHeader.ProposerPubKey
      | none => .panic
      | some h => match h.proposed with
        | none => .panic
        | some _ => .val p.keyMatches

structure Vote where                 -- `Vote` :260, `FromBytes` :735
  round : Option Nat                 -- `Header` (nil when `data` absent) reduced to the field the handler reads
  deriving Repr, DecidableEq

def Vote.isValid (v : Vote) : Bool := v.round.isSome          -- :798

structure Flip where                 -- `Flip` :270
  hasTx : Bool
  deriving Repr, DecidableEq

def Flip.isValid (f : Flip) : Bool := f.hasTx                  -- :314

/-- element of a block-range answer (`protocol/batch.go:20 block`) -/
structure RangeItem where
  header : Option Header
  deriving Repr, DecidableEq

/-- `(*blockRange).IsValid` batch.go:77 -/
def rangeValid (items : List RangeItem) : Bool := items.all (fun i => Header.isValid i.header)

/-- `pushType(protoObj.Type)` types.go:131: `uint32 → uint8` -/
def pushTypeOf (raw : Nat) : Nat := raw % 256

/-- `(*pushPullHash).IsValid` types.go:139: `pushVote ≤ Type ≤ pushTx` -/
def pushValid (t : Nat) : Bool := 1 ≤ t && t ≤ 6

/-! ## The handler (`gossip.go:199`) -/

inductive Msg where
  | blocksRange (items : List RangeItem)
  | proposeProof (round : Nat)
  | proposeBlock (p : Proposal)
  | vote (v : Vote)
  | newTx
  | getBlockByHash
  | getBlocksRange
  | getForkBlockRange
  | flipBody (f : Flip)
  | flipKey
  | batchFlipKey (itemsDecode : List Bool)
  | snapshotManifest (height : Nat)
  | flipKeysPackage
  | push (rawType : Nat)
  | batchPush (items : List (Option Nat))       -- `none`: the item does not decode
  | pull (rawType : Nat)
  | block (b : Block)
  | updateShardId (shard : Nat)
  | disconnect
  | other                                        -- any code the switch has no case for (incl. Handshake)
  deriving Repr

/-- what the node-local context contributes to the prefix -/
structure Env where
  /-- `isProcessed(key)`: some connected peer already delivered the same payload -/
  processed : Bool
  /-- a block-range request with this batch id is pending for this peer (gossip.go:215-217) -/
  batchKnown : Bool
  /-- push types with a registered entry holder (gossip.go:118-123) -/
  holders : List Nat
  deriving Repr

/-- observable effect of the prefix on the peer record -/
structure Obs where
  known : Option Nat := none         -- `setHeight`
  potential : Option Nat := none     -- `setPotentialHeight`
  manifest : Option Nat := none
  shard : Option Nat := none
  forwarded : Bool := false          -- handed to a pool / pending set / the push-pull manager
  deriving Repr, DecidableEq

inductive Outcome where
  | decodeErr                        -- `errResp(DecodeErr, …)`
  | invalid                          -- `errResp(ValidationErr, …)`
  | ok (o : Obs)
  | panic
  deriving Repr, DecidableEq

def maxL : List Nat → Option Nat
  | [] => none
  | a :: t => match maxL t with | none => some a | some m => some (max a m)

/-- heights read by `p.setHeight(b.Header.Height())` for every block of the range, in order -/
def rangeHeights : List RangeItem → R (List Nat)
  | [] => .val []
  | i :: t => (Header.height i.header).bind fun h => (rangeHeights t).bind fun r => .val (h :: r)

/-- `addPush` pushpull.go:44: `holder == nil → panic("pushpull holder is not found")` -/
def addPush (env : Env) (t : Nat) : Outcome :=
  if env.holders.contains t then .ok { forwarded := true } else .panic

/-- one element of a push batch (gossip.go:416-431): `none` = keep going -/
def batchPushStep (env : Env) : Option Nat → Option Outcome
  | none => some .decodeErr
  | some raw =>
    let t := pushTypeOf raw
    if !pushValid t then some .invalid
    else match addPush env t with
      | .panic => some .panic
      | _ => none

def batchPushRun (env : Env) : List (Option Nat) → Outcome
  | [] => .ok { forwarded := true }
  | i :: rest => match batchPushStep env i with
    | some o => o
    | none => batchPushRun env rest

/-- the gate of a message kind: the `IsValid` test of its branch (`true` when the branch has none) -/
def gate : Msg → R Bool
  | .blocksRange items => .val (rangeValid items)
  | .proposeBlock p => p.isValid
  | .vote v => .val v.isValid
  | .flipBody f => .val f.isValid
  | .push raw => .val (pushValid (pushTypeOf raw))
  | .pull raw => .val (pushValid (pushTypeOf raw))
  | .block b => .val b.isValid
  | _ => .val true

/-- what the branch does after its gate, up to the call into the pool / pending set -/
def body (env : Env) : Msg → Outcome
  | .blocksRange items =>                                     -- :214-231
    if env.batchKnown then
      match rangeHeights items with
      | .panic => .panic
      | .val hs => .ok { known := maxL hs, potential := maxL hs, forwarded := true }
    else .ok {}
  | .proposeProof round =>                                    -- :238-247
    if env.processed then .ok {}
    else .ok { known := some (pred64 round), potential := some (pred64 round), forwarded := true }
  | .proposeBlock p =>                                        -- :256-268
    if env.processed then .ok {}
    else match p.block with
      | none => .ok {}                                        -- :261
      | some b =>
        if p.sigLen = 0 then .ok {}
        else match b.height with                              -- :265 proposal.Block.Height()
          | .panic => .panic
          | .val h =>
            match b.hash with                                 -- AddProposedBlock: block.Hash() proposals.go:226/297
            | .panic => .panic
            | .val _ => .ok { known := some (pred64 h), potential := some (pred64 h), forwarded := true }
  | .vote v =>                                                -- :277-285
    if env.processed then .ok {}
    else match v.round with
      | none => .panic                                        -- :282 vote.Header.Round
      | some r => .ok { potential := some (pred64 r), forwarded := true }
  | .newTx => if env.processed then .ok {} else .ok { forwarded := true }
  | .getBlockByHash => .ok {}
  | .getBlocksRange => .ok {}
  | .getForkBlockRange => .ok {}
  | .flipBody f =>                                            -- :332-337 → Flipper.addNewFlip: flip.Tx…
    if env.processed then .ok {}
    else if f.hasTx then .ok { forwarded := true } else .panic
  | .flipKey => if env.processed then .ok {} else .ok { forwarded := true }
  | .batchFlipKey ds => if ds.all id then .ok { forwarded := true } else .decodeErr
  | .snapshotManifest h => .ok { manifest := some h }
  | .flipKeysPackage => if env.processed then .ok {} else .ok { forwarded := true }
  | .push raw => addPush env (pushTypeOf raw)                 -- :404-410
  | .batchPush items => batchPushRun env items
  | .pull raw =>                                              -- :441 GetEntry: entryHolders[t].Get on a nil interface
    if env.holders.contains (pushTypeOf raw) then .ok {} else .panic
  | .block b =>                                               -- :452-457 → proposals.AddBlock: block.Hash()
    if env.processed then .ok {}
    else match b.hash with
      | .panic => .panic
      | .val _ => .ok { forwarded := true }
  | .updateShardId s => .ok { shard := some s }
  | .disconnect => .ok {}
  | .other => .ok {}

/-- a push batch applies gate and body item by item; every other kind: gate, then body -/
def handle (env : Env) (m : Msg) : Outcome :=
  match gate m with
  | .panic => .panic
  | .val false => .invalid
  | .val true => body env m

/-- the holders the constructor registers cover exactly the valid push types -/
def Env.holdersComplete (env : Env) : Prop := ∀ t, pushValid t = true → env.holders.contains t = true

/-! ## Transport frame (`protocol/peer.go:436 Decode`) -/

/-- `binary.Uvarint` (value, bytes read): `none` on truncation or overflow (> 10 bytes / 64 bits) -/
def uvarintAux : List Nat → Nat → Nat → Nat → Option (Nat × Nat)
  | [], _, _, _ => none
  | b :: rest, shift, acc, i =>
    if i = 10 then none
    else if b < 128 then
      if i = 9 ∧ b > 1 then none else some (acc + b * 2 ^ shift, i + 1)
    else uvarintAux rest (shift + 7) (acc + (b % 128) * 2 ^ shift) (i + 1)

def uvarint (bs : List Nat) : Option (Nat × Nat) := uvarintAux bs 0 0 0

inductive FrameKind where
  | reject
  | plain (len : Nat)
  | s2 (claimed : Nat)               -- handed to `s2.Decode(nil, …)`, which allocates `claimed` bytes first
  deriving Repr, DecidableEq

structure FrameRes where
  kind : FrameKind
  /-- bytes allocated on behalf of the frame before its content has been looked at -/
  alloc : Nat
  deriving Repr, DecidableEq

/-- `s2.DecodedLen`: uvarint header, `> 0xffffffff` is corrupt -/
def s2DecodedLen (body : List Nat) : Option Nat :=
  match uvarint body with
  | none => none
  | some (v, _) => if v > 4294967295 then none else some v

/-- `Decode` with the decoded-length cap `cap` (`maxDecodedMsgSize`); `cap = none`: the code before the cap existed -/
def decodeFrame (cap : Option Nat) : List Nat → FrameRes
  | [] => ⟨.reject, 0⟩                                        -- "msg is empty"
  | 0 :: rest => ⟨.plain rest.length, 0⟩                      -- noCompression: a sub-slice, no allocation
  | 1 :: rest =>
    match cap with
    | some c =>
      (match s2DecodedLen rest with
       | none => ⟨.reject, 0⟩
       | some n => if n > c then ⟨.reject, 0⟩ else ⟨.s2 n, n⟩)
    | none =>
      (match s2DecodedLen rest with
       | none => ⟨.reject, 0⟩                                -- s2.Decode itself: ErrCorrupt before allocating
       | some n => ⟨.s2 n, n⟩)
  | _ :: _ => ⟨.reject, 0⟩                                    -- "unknown compression"

/-! ## Block validation on a block assembled from decodable parts (`blockchain.go:2304 validateBlock`) -/

inductive Verdict where
  | accept | reject | panic
  deriving Repr, DecidableEq

/-- the semantic checks as parameters: `emptyHashEq` (:2308), `preBody` = header, fee rate and proposer
checks (:2314-2326), `rest` = everything from the tx hash on (:2330-2390) -/
structure Sem where
  emptyHashEq : Bool
  preBody : Bool
  rest : Bool
  deriving Repr, DecidableEq

def validateBlock (b : Block) (s : Sem) : Verdict :=
  if b.isEmpty then                                           -- :2306 (block.Hash() is safe: Header ≠ nil)
    if s.emptyHashEq then .accept else .reject
  else
    match Header.height b.header with                         -- :2314 ValidateHeader → :2468 block.Height()
    | .panic => .panic
    | .val _ =>
      if !s.preBody then .reject
      else match b.body with                                  -- :2328 block.Body.Transactions
        | none => .panic
        | some _ => if s.rest then .accept else .reject

/-- every path by which a network block reaches `validateBlock` tests `Block.IsValid` (or more) first:
`handle` case `Block` (:449), `BlockProposal.IsValid` (:253 → types.go:1168), block-range answers
(`blockRange.IsValid` + a body the node builds itself, full.go:193-210) -/
def validateBlockAssembled (b : Block) (s : Sem) : Verdict :=
  if b.isValid then validateBlock b s else .reject

/-! ## Fork block list (`consensus/fork_resolver.go`) -/

structure ForkBlock where
  height : Nat
  isEmpty : Bool
  deriving Repr, DecidableEq

/-- own chain as `checkForkSize` sees it: head height and, per height, whether the canonical block can be read
(`GetBlockByHeight`) and is empty -/
structure Own where
  head : Nat
  blockAt : Nat → Option Bool
  /-- `GetBlockHeaderByHeight(h) ≠ nil` -/
  headerKnown : Nat → Bool

inductive ForkRes where
  | errEmpty | notConsecutive | outsideOwn | lessProposed | worseSeed | okBigger | okBetter | panic
  deriving Repr, DecidableEq

/-- the loop :129-143, `j`-th iteration at height `i`, `n` iterations left -/
def forkLoop (own : Own) (fork : List ForkBlock) : Nat → Nat → Nat → Nat → Nat → ForkRes ⊕ (Nat × Nat)
  | 0, _, _, fp, op => .inr (fp, op)
  | n + 1, j, i, fp, op =>
    match fork[j]? with
    | none => .inl .notConsecutive                            -- j >= len(fork)
    | some fb =>
      if fb.height ≠ i then .inl .notConsecutive
      else match own.blockAt i with
        | none => .inl .outsideOwn
        | some ownEmpty =>
          forkLoop own fork n (j + 1) (i + 1) (if fb.isEmpty then fp else fp + 1) (if ownEmpty then op else op + 1)

/-- `checkForkSize` :116 on the sorted list; `seedBetter` = the seed comparison :147 (parameter) -/
def checkForkSize (own : Own) (fork : List ForkBlock) (seedBetter : Bool) : ForkRes :=
  match fork.getLast?, fork.head? with
  | some last, some first =>
    if last.height > own.head then .okBigger
    else
      match forkLoop own fork (last.height + 1 - first.height) 0 first.height 0 0 with
      | .inl e => e
      | .inr (fp, op) =>
        if fp < op then .lessProposed
        else match own.blockAt first.height with              -- :147 GetBlockByHeight(first).Seed()
          | none => .panic
          | some _ => if seedBetter then .okBetter else .worseSeed
  | _, _ => .errEmpty

/-- `sortBlocks` :108: stable sort by height (insertion sort) -/
def insertByHeight (b : ForkBlock) : List ForkBlock → List ForkBlock
  | [] => [b]
  | a :: t => if b.height ≤ a.height then b :: a :: t else a :: insertByHeight b t

def sortBlocks : List ForkBlock → List ForkBlock
  | [] => []
  | a :: t => insertByHeight a (sortBlocks t)

inductive ProcRes where
  | noBlocks                          -- "common height is not found"
  | forkSmaller (why : ForkRes)       -- checkForkSize refused
  | unknownCommon                     -- ValidateSubChain: the block below the fork is not on the own chain
  | subchain (commonHeight : Nat)     -- handed to block-by-block validation (each block through `validateBlock`)
  | panic
  deriving Repr, DecidableEq

/-- `processBlocks` :73 up to the per-block validation of `ValidateSubChain` (blockchain.go:2699) -/
def processBlocks (own : Own) (blocks : List ForkBlock) (seedBetter : Bool) : ProcRes :=
  match sortBlocks blocks with
  | [] => .noBlocks
  | first :: rest =>
    match checkForkSize own (first :: rest) seedBetter with
    | .panic => .panic
    | .okBigger | .okBetter =>
      let common := pred64 first.height                          -- :90 forkBlocks[0].Block.Height() - 1
      if own.headerKnown common then .subchain common            -- blockchain.go:2700 (GetBlockHeaderByHeight ≠ nil)
      else .unknownCommon
    | e => .forkSmaller e

/-- the loop as it was before the consecutive/unknown-height tests were added (finding F15) -/
def forkLoopOld (own : Own) (fork : List ForkBlock) : Nat → Nat → Nat → Nat → Nat → ForkRes ⊕ (Nat × Nat)
  | 0, _, _, fp, op => .inr (fp, op)
  | n + 1, j, i, fp, op =>
    match fork[j]? with
    | none => .inl .panic                                     -- index out of range
    | some fb =>
      match own.blockAt i with
      | none => .inl .panic                                   -- GetBlockByHeight(i).IsEmpty() on nil
      | some ownEmpty =>
        forkLoopOld own fork n (j + 1) (i + 1) (if fb.isEmpty then fp else fp + 1) (if ownEmpty then op else op + 1)

/-! ## Table of modelled dereference sites: (Go function, optional field selected through) -/

def modelledSites : List (String × String) := [
  ("blockchain/types:Header.Height", "ProposedHeader"),
  ("blockchain/types:Header.Height", "EmptyBlockHeader"),
  ("blockchain/types:Header.Hash", "ProposedHeader"),
  ("blockchain/types:Header.Hash", "EmptyBlockHeader"),
  ("blockchain/types:Header.ParentHash", "ProposedHeader"),
  ("blockchain/types:Header.ParentHash", "EmptyBlockHeader"),
  ("blockchain/types:Header.Flags", "EmptyBlockHeader"), ("blockchain/types:Header.Flags", "ProposedHeader"),
  ("blockchain/types:Header.Seed", "EmptyBlockHeader"), ("blockchain/types:Header.Seed", "ProposedHeader"),
  ("blockchain/types:Header.Root", "EmptyBlockHeader"), ("blockchain/types:Header.Root", "ProposedHeader"),
  ("blockchain/types:Header.IdentityRoot", "EmptyBlockHeader"), ("blockchain/types:Header.IdentityRoot", "ProposedHeader"),
  ("blockchain/types:Header.Time", "EmptyBlockHeader"), ("blockchain/types:Header.Time", "ProposedHeader"),
  ("blockchain/types:Header.Coinbase", "ProposedHeader"),
  ("blockchain/types:Header.FeePerGas", "ProposedHeader"),
  ("blockchain/types:Header.IpfsHash", "ProposedHeader"),
  ("blockchain/types:Header.OfflineAddr", "ProposedHeader"),
  ("blockchain/types:Block.Height", "Header"),
  ("blockchain/types:Block.Height", "EmptyBlockHeader"),
  ("blockchain/types:Block.Height", "ProposedHeader"),
  ("blockchain/types:Block.Hash", "Header"),
  ("blockchain/types:Block.IsEmpty", "Header"),
  ("blockchain/types:Block.IsValid", "Header"),
  ("blockchain/types:Block.IsValid", "Body"),
  ("blockchain/types:BlockProposal.IsValid", "Block"),
  ("blockchain/types:BlockProposal.IsValid", "Header"),
  ("blockchain/types:BlockProposal.IsValid", "ProposedHeader"),
  ("protocol:blockRange.IsValid", "Header"),
  ("protocol:IdenaGossipHandler.handle", "Header"),
  ("protocol:IdenaGossipHandler.handle", "Block"),
  ("pengings:Votes.AddVote", "Header"),
  ("pengings:Proposals.AddProposedBlock", "Header"),
  ("pengings:Proposals.AddProposedBlock", "ProposedHeader"),
  ("core/flip:Flipper.addNewFlip", "Tx"),
  ("blockchain:Blockchain.validateBlock", "Header"),
  ("blockchain:Blockchain.validateBlock", "ProposedHeader"),
  ("blockchain:Blockchain.validateBlock", "Body"),
  ("consensus:ForkResolver.checkForkSize", "Block"),
  ("consensus:ForkResolver.processBlocks", "Block"),
  ("consensus:sortBlocks", "Block")
]

/-- classes the expectation list may use for a site that is not in `modelledSites` -/
def otherClasses : List String :=
  ["nil-checked", "nil-safe-callee", "post-gate", "local-object", "stored-chain", "encoder", "tx-validator", "post-validate", "not-network", "type-expr"]

/-- classification of one census row -/
def siteClassified (fn field cls : String) : Bool :=
  if cls = "modelled" then modelledSites.contains (fn, field) else otherClasses.contains cls

end IdenaModel.Msg
