import IdenaModel.Model.Store
/-
M-Store, part 2: the versioned state store (`core/state/statedb.go` over the IAVL tree: `CommitTree`
= `SaveVersionAt` + pruning to the last `MaxSavedStatesCount` versions; `ForCheck(h)` = a `BackedMemDb`
overlay over the version `h`; `Readonly(h)` = the saved version `h`).  Contents are the sorted stores of
part 1.  Core Lean only.
-/
namespace IdenaModel.Store

structure VStore where
  versions : List (Nat × KV)   -- saved versions, newest first
  working : KV                 -- the canonical working tree
  keep : Nat                   -- MaxSavedStatesCount

def VStore.version (s : VStore) : Nat := match s.versions with | [] => 0 | (h, _) :: _ => h

/-- write on the canonical working tree (between commits) -/
def VStore.write (s : VStore) (b : BOp) : VStore := { s with working := kvApplyB s.working b }

/-- `CommitTree(version+1)`: save the working tree, prune to the newest `keep` versions -/
def VStore.commit (s : VStore) : VStore :=
  { s with versions := ((s.version + 1, s.working) :: s.versions).take s.keep }

/-- `Readonly(h)` / `LoadVersion(h)`: the content saved at `h`, if retained -/
def VStore.at (s : VStore) (h : Nat) : Option KV := (s.versions.find? (·.1 == h)).map (·.2)

/-- `ForCheck(h)`: a copy-on-write view over the version `h` -/
def VStore.forCheck (s : VStore) (h : Nat) : Option Overlay := (s.at h).map Overlay.init

/-- `StateDB.Reset()` (IAVL `Rollback`): the working tree goes back to the last saved version -/
def VStore.reset (s : VStore) : VStore :=
  { s with working := match s.versions with | [] => [] | (_, m) :: _ => m }

/-- `AppState.ResetTo(h)` (`LoadVersionForOverwriting(h)`): the versions above `h` are deleted and the working tree is the
version `h`; refused when `h` is not retained -/
def VStore.resetTo (s : VStore) (h : Nat) : Option VStore :=
  (s.at h).map fun m => { s with versions := s.versions.filter (fun v => decide (v.1 ≤ h)), working := m }

/-- the range iteration of the canonical working tree (`IterateOverAccounts` …): its whole content, in key order -/
def VStore.iter (s : VStore) : KV := s.working

/-- a canonical history: per block a list of writes, then a commit -/
def VStore.applyBlocks (s : VStore) : List (List BOp) → VStore
  | [] => s
  | ws :: rest => VStore.applyBlocks ((ws.foldl VStore.write s).commit) rest

def VStore.init (keep : Nat) : VStore := { versions := [], working := [], keep := keep }

end IdenaModel.Store
