/-
M-Flags (C03, derived header flags; C01, next-block parameters): `calculateFlags` (blockchain.go:2122), the timing predicates
(blockchain/timing.go), and the part of `applyGlobalParams` (blockchain.go:1171) that moves the validation period, counts the
after-long-session blocks and records snapshots.  Times are unix seconds (`Int`), durations nanoseconds (`Int`, as
`time.Duration`); `time.Time.Sub` saturates only beyond ±292 years, outside the accepted timestamp window (C03).
The offline flags (`OfflinePropose`, `OfflineCommit`) are the proposer's free choice and not part of this model.
Core Lean only.
-/
namespace IdenaModel.Flags

/-- flag bits (blockchain/types/types.go:54) -/
def fIdentityUpdate : Nat := 1
def fFlipLottery : Nat := 2
def fShort : Nat := 4
def fLong : Nat := 8
def fAfterLong : Nat := 16
def fFinished : Nat := 32
def fSnapshot : Nat := 64
def fNewGenesis : Nat := 512

/-- `state.AfterLongRequiredBlocks` -/
def afterLongRequired : Nat := 5

structure Cfg where
  flipLotteryNs : Int
  shortNs : Int
  snapshotRange : Nat
  statusSwitchRange : Nat
  delegationSwitchRange : Nat
  discriminationSwitchRange : Nat
  genesisAfterUpgrade : Bool

/-- the part of the state the flags depend on -/
structure St where
  period : Nat                       -- 0 none, 1 flip lottery, 2 short, 3 long, 4 after long
  nextValidation : Int
  cnt : Nat                          -- BlocksCntWithoutCeremonialTxs
  empty : List (Nat × List Nat)      -- EmptyBlocksByShards: shard ↦ proposers
  shardsNum : Nat                    -- as returned by ShardsNum() (≥ 1)
  lastSnapshot : Nat

/-- what the block and the rest of the state contribute -/
structure In where
  height : Nat
  time : Int
  isEmpty : Bool                     -- an empty block
  hasKill : Bool                     -- a Kill / KillInvitee / KillDelegator transaction in the body
  longNs : Int                       -- GetLongSessionDuration(network size)
  statusSwitch : Bool                -- len(StatusSwitchAddresses) > 0
  delayedPenalties : Bool
  delegations : Bool
  discrimination : Bool
  prevUpgrade : Bool                 -- the previous header announces an upgrade
  cerShards : List Nat               -- shards of the senders of ceremonial transactions in the body
  proposer : Nat
  proposerShard : Nat                -- the shard the block counts for (after the random choice for a non-validated proposer)
  proposerValidated : Bool
  onlineSize : Nat

def ns : Int := 1000000000

def isFlipLotteryStarted (c : Cfg) (nv t : Int) : Bool := decide ((nv - t) * ns < c.flipLotteryNs)
def isShortStarted (nv t : Int) : Bool := decide (¬ t < nv)
def isLongStarted (c : Cfg) (nv t : Int) : Bool := decide ((t - nv) * ns > c.shortNs)
def isAfterLongStarted (c : Cfg) (nv t longNs : Int) : Bool := decide ((t - nv) * ns > c.shortNs + longNs)

def shardLen (e : List (Nat × List Nat)) (s : Nat) : Nat := ((e.find? (·.1 == s)).map (·.2.length)).getD 0

/-- `CanCompleteEpoch` (state_object.go:1567) -/
def canComplete (s : St) : Bool :=
  decide (s.cnt ≥ afterLongRequired * 2 * s.shardsNum) ||
    decide ((s.empty.filter (fun p => decide (p.2.length ≥ afterLongRequired))).length = s.shardsNum)

def bit (b : Bool) (f : Nat) : Nat := if b then f else 0

/-- the ceremony transition the block makes, as a flag (at most one: the conditions test different periods) -/
def transition (c : Cfg) (s : St) (i : In) : Nat :=
  if s.period = 0 then bit (isFlipLotteryStarted c s.nextValidation i.time) fFlipLottery
  else if s.period = 1 then bit (isShortStarted s.nextValidation i.time) fShort
  else if s.period = 2 then bit (isLongStarted c s.nextValidation i.time) fLong
  else if s.period = 3 then bit (isAfterLongStarted c s.nextValidation i.time i.longNs) fAfterLong
  else if s.period = 4 then bit (canComplete s) fFinished
  else 0

def snapshotDue (c : Cfg) (s : St) (i : In) (tr : Nat) : Bool :=
  decide (i.height - s.lastSnapshot ≥ c.snapshotRange) && decide (s.period = 0) && decide (tr ≠ fFinished) && decide (tr ≠ fFlipLottery)

def identityUpdateDue (c : Cfg) (i : In) (snap : Bool) : Bool :=
  ((snap || decide (i.height % c.statusSwitchRange = 0)) && (i.statusSwitch || i.delayedPenalties)) ||
  (decide (i.height % c.delegationSwitchRange = 0) && i.delegations) ||
  (decide (i.height % c.discriminationSwitchRange = 0) && i.discrimination)

/-- `calculateFlags` as a list of the flags set; `flagsNat` is their sum (the header field without the offline flags) -/
def calcFlags (c : Cfg) (s : St) (i : In) : List Nat :=
  let tr := transition c s i
  let snap := snapshotDue c s i tr
  let iu := i.hasKill || decide (tr = fFinished) || identityUpdateDue c i snap
  (if iu then [fIdentityUpdate] else []) ++ (if tr ≠ 0 then [tr] else []) ++ (if snap then [fSnapshot] else []) ++
    (if i.prevUpgrade && c.genesisAfterUpgrade then [fNewGenesis] else [])

def flagsNat (c : Cfg) (s : St) (i : In) : Nat := (calcFlags c s i).foldl (· + ·) 0

/-! ### `applyGlobalParams`, period / counters / snapshot part -/

def setShard (e : List (Nat × List Nat)) (s : Nat) (v : List Nat) : List (Nat × List Nat) :=
  if e.any (·.1 == s) then e.map (fun p => if p.1 == s then (s, v) else p) else e ++ [(s, v)]

/-- `AddEmptyBlockByShard` (state_object.go:1527) -/
def addEmptyBlock (s : St) (onlineSize shard proposer : Nat) : List (Nat × List Nat) :=
  if shardLen s.empty shard ≥ afterLongRequired then s.empty
  else if s.empty.any (fun p => p.2.contains proposer) && decide (onlineSize / s.shardsNum > afterLongRequired) then s.empty
  else setShard s.empty shard (((s.empty.find? (·.1 == shard)).map (·.2)).getD [] ++ [proposer])

/-- the after-long-session accounting of a non-empty block -/
def afterLongAccount (s : St) (i : In) : St :=
  if s.period = 4 && !i.isEmpty then
    if i.cerShards.isEmpty then
      { s with empty := addEmptyBlock s i.onlineSize i.proposerShard i.proposer, cnt := s.cnt + 1 }
    else
      let e1 := if i.proposerValidated && !i.cerShards.contains i.proposerShard
                then addEmptyBlock s i.onlineSize i.proposerShard i.proposer else s.empty
      { s with cnt := 0, empty := i.cerShards.foldl (fun e sh => setShard e sh []) e1 }
  else s

/-- the new period after a block with the given transition flag -/
def nextPeriod (p tr : Nat) : Nat :=
  if tr = fFlipLottery then 1 else if tr = fShort then 2 else if tr = fLong then 3 else if tr = fAfterLong then 4
  else if tr = fFinished then 0 else p

/-- state after the block (the next validation time and shard number change in `applyNewEpoch`, not modelled here:
the driver re-reads them after a finishing block) -/
def applyBlock (c : Cfg) (s : St) (i : In) : St :=
  let tr := transition c s i
  -- `applyNewEpoch` runs before `applyGlobalParams` and clears the empty-block lists; the accounting of the finishing
  -- block itself then still happens (the period is changed last), so its proposer may stay recorded into the next epoch
  let s0 : St := if tr = fFinished then { s with empty := [] } else s
  let s1 := afterLongAccount s0 i
  let s2 := { s1 with period := nextPeriod s.period tr, cnt := if tr = fFinished then 0 else s1.cnt }
  if snapshotDue c s i tr then { s2 with lastSnapshot := i.height } else s2

end IdenaModel.Flags
