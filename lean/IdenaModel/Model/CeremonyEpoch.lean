/-
M-CeremonyEpoch (C01, node history part): the answers a node holds for the running validation ceremony, under every
node-local history — blocks arriving, chain resets (also over the validation-finishing block), restarts.

Modelled code (core/ceremony/ceremony.go): `addBlock` (handle the block's answers transactions, persist, on a
validation-finishing block `completeEpoch`), the `BlockchainResetEvent` handler (return to the previous epoch's
ceremony when the state's epoch went back, remove the reverted answers of the current epoch, persist),
`Initialize`/`restoreState` (a restart: answers come back from the epoch database), `completeEpoch` (switch to the new
epoch's database; the finished epoch's database is kept until the next epoch finishes — the repair of finding F33; the
code as found cleared it at once).  Answer payloads are abstract (`Nat`).  Core Lean only.
-/
namespace IdenaModel.CeremonyEpoch

/-- a ceremony transaction that a node records: sender, kind (0 = long answers, 1 = short answers, 2 = answers hash,
3 = evidence map — all four are first-write-wins per sender and removed when reverted; the last two live in the epoch
database only, which the model's persist-after-every-step renders exactly), payload -/
structure Tx where
  sender : Nat
  kind : Nat
  payload : Nat
  deriving DecidableEq, Repr

/-- does the transaction write the entry (a, s)? -/
def Tx.hits (t : Tx) (a : Nat) (s : Nat) : Bool := t.sender == a && t.kind == s

/-- the answer store: (sender, kind) ↦ payload; extensional -/
abbrev AMap := Nat → Nat → Option Nat

def AMap.empty : AMap := fun _ _ => none

/-- `addAnswers`: the first write wins -/
def AMap.add (m : AMap) (t : Tx) : AMap := fun a s =>
  if t.hits a s then (match m a s with | some p => some p | none => some t.payload) else m a s

/-- `removeAnswers` -/
def AMap.remove (m : AMap) (t : Tx) : AMap := fun a s => if t.hits a s then none else m a s

def AMap.addAll (m : AMap) (txs : List Tx) : AMap := txs.foldl AMap.add m
def AMap.removeAll (m : AMap) (txs : List Tx) : AMap := txs.foldl AMap.remove m

/-- the ceremony object of a node together with its epoch databases -/
structure VC where
  epoch : Nat                  -- `vc.epoch`
  mem : AMap                   -- `vc.qualification` (in memory)
  db : Nat → Option AMap       -- the epoch databases that exist (persisted answers per epoch)

def VC.init : VC := { epoch := 0, mem := AMap.empty, db := fun e => if e = 0 then some AMap.empty else none }

def setDb (db : Nat → Option AMap) (e : Nat) (v : Option AMap) : Nat → Option AMap := fun x => if x = e then v else db x

/-- `completeEpoch` after a finishing block: new epoch, empty store over the new epoch's database; `keepFinished`
selects the repaired behaviour (the finished epoch's database stays, the one before it goes) or the code as found
(the finished epoch's database is cleared at once). -/
def VC.complete (keepFinished : Bool) (v : VC) : VC :=
  let db1 := setDb v.db (v.epoch + 1) (some AMap.empty)
  let db2 := if keepFinished then (if v.epoch = 0 then db1 else setDb db1 (v.epoch - 1) none) else setDb db1 v.epoch none
  { epoch := v.epoch + 1, mem := AMap.empty, db := db2 }

/-- `addBlock`: answers of the block, persist, complete the epoch on a finishing block -/
def VC.addBlock (keepFinished : Bool) (v : VC) (txs : List Tx) (finish : Bool) : VC :=
  let mem' := v.mem.addAll txs
  let v1 : VC := { v with mem := mem', db := setDb v.db v.epoch (some mem') }
  if finish then v1.complete keepFinished else v1

/-- the reset handler.  `stateEpoch` = the epoch of the state the chain was reset to; `reverted` = the transactions of
the removed blocks that belong to that epoch (transactions of another epoch are skipped: `tx.Epoch != vc.epoch`). -/
def VC.reset (v : VC) (stateEpoch : Nat) (reverted : List Tx) : VC :=
  let v1 : VC :=
    if stateEpoch < v.epoch then
      -- back to the previous ceremony: its answers are restored from its epoch database (nothing if that is gone)
      { v with epoch := stateEpoch, mem := (v.db stateEpoch).getD AMap.empty }
    else v
  let mem' := v1.mem.removeAll reverted
  { v1 with mem := mem', db := setDb v1.db v1.epoch (some mem') }

/-- a restart: a new ceremony object over the same databases -/
def VC.restart (v : VC) : VC := { v with mem := (v.db v.epoch).getD AMap.empty }

/-! ### the canonical chain, as a list of epochs -/

/-- `cur`: the answers transactions of the blocks of the running epoch, newest block first;
`past`: the finished epochs, newest first — (transactions of the finishing block, earlier blocks newest first) -/
structure Chain where
  cur : List (List Tx)
  past : List (List Tx × List (List Tx))

def Chain.init : Chain := { cur := [], past := [] }

/-- the state's epoch -/
def Chain.epoch (c : Chain) : Nat := c.past.length

/-- answers transactions of a list of blocks (newest first), oldest first -/
def txsOf (blocks : List (List Tx)) : List Tx := blocks.reverse.flatten

/-- the specification: what a node must hold is a function of the canonical chain alone -/
def expected (c : Chain) : AMap := AMap.empty.addAll (txsOf c.cur)

structure Node where
  chain : Chain
  vc : VC

def Node.init : Node := { chain := Chain.init, vc := VC.init }

inductive Op
  | add (txs : List Tx)         -- an ordinary block
  | finish (txs : List Tx)      -- the validation-finishing block
  | reset (k : Nat)             -- the newest k blocks of the running epoch are removed
  | resetAcross (j : Nat)       -- everything of the running epoch, the last finishing block and j blocks before it
  | restart
  deriving Repr

def Node.step (keepFinished : Bool) (n : Node) : Op → Node
  | .add txs => { chain := { n.chain with cur := txs :: n.chain.cur }, vc := n.vc.addBlock keepFinished txs false }
  | .finish txs =>
    { chain := { cur := [], past := (txs, n.chain.cur) :: n.chain.past }, vc := n.vc.addBlock keepFinished txs true }
  | .reset k =>
    { chain := { n.chain with cur := n.chain.cur.drop k },
      vc := n.vc.reset n.chain.epoch (n.chain.cur.take k).flatten }
  | .resetAcross j =>
    match n.chain.past with
    | [] => n
    | (f, blocks) :: rest =>
      { chain := { cur := blocks.drop j, past := rest },
        vc := n.vc.reset rest.length (f ++ (blocks.take j).flatten) }
  | .restart => { n with vc := n.vc.restart }

def Node.run (keepFinished : Bool) (n : Node) (ops : List Op) : Node := ops.foldl (Node.step keepFinished) n

end IdenaModel.CeremonyEpoch
