import IdenaModel.Model.ProtoWire
/-!
# C18: value conversions of the hand-written codecs and the field-coverage table

(a) The conversions between Go field values and protobuf field values that `ToProto/FromProto` use:
big integers (`common/big.go:30-44`), `int64` through a varint, fixed-size byte arrays
(`common.BytesToHash/BytesToAddress`, `types.BytesToSeed`: right-aligned copy), optional addresses, and the
`uint16/uint8 ↔ uint32` widenings.

(b) The field table that the harness regenerates from /repo's current source on every run (go/ast + go/types over
the encoder/decoder functions) and the executable obligation `TableOK` on it.
Core Lean only.
-/
namespace IdenaModel.Codec
open IdenaModel.ProtoWire

/-! ## big integers: `big.Int.Bytes()` / `SetBytes` = minimal big-endian magnitude; the sign is dropped -/

/-- `(*big.Int).Bytes()` of a non-negative value: big-endian, no leading zero, `0 ↦ []` -/
def beBytes (n : Nat) : Bytes :=
  if n = 0 then [] else beBytes (n / 256) ++ [n % 256]
termination_by n
decreasing_by omega

/-- `(*big.Int).SetBytes` -/
def beNat (b : Bytes) : Nat := b.foldl (fun acc x => acc * 256 + x) 0

/-- `common.BigIntBytesOrNil` (`common/big.go:30`): `nil ↦ nil`, otherwise the magnitude (sign lost);
`nil` and empty are the same absent field on the wire -/
def bigEnc : Option Int → Bytes
  | none => []
  | some z => beBytes z.natAbs

/-- what `FromProto` gets back: absent field ⇒ `nil` (`common.BigIntOrNil`, `common/big.go:37`) -/
def bigDec (b : Bytes) : Option Int :=
  if b.isEmpty then none else some ((beNat b : Nat) : Int)

/-- semantic value of an optional big integer (`nil ≃ 0`; every reader goes through `…OrZero`/`ZeroOrNil`) -/
def bigVal (x : Option Int) : Int := x.getD 0

/-! ## `int64` fields travel as the 64-bit two's complement in a varint -/

def i64Enc (z : Int) : Nat := (z % (2 ^ 64 : Int)).toNat

def i64Dec (n : Nat) : Int := if n < 2 ^ 63 then (n : Int) else (n : Int) - (2 ^ 64 : Int)

/-! ## fixed-size arrays: `SetBytes` crops from the left / left-pads with zeros (`common/types.go`) -/

def fixN (n : Nat) (b : Bytes) : Bytes :=
  if n ≤ b.length then b.drop (b.length - n) else List.replicate (n - b.length) 0 ++ b

/-- optional address: `nil ↦` absent, else the 20 bytes; decoder: non-empty ⇒ pointer to `BytesToAddress` -/
def optEnc : Option Bytes → Bytes
  | none => []
  | some a => a

def optDec (n : Nat) (b : Bytes) : Option Bytes := if b.isEmpty then none else some (fixN n b)

/-- `uint16(x)` / `uint8(x)` of a widened value -/
def narrow (bits n : Nat) : Nat := n % 2 ^ bits

/-! ## the regenerated field table -/

/-- one Go struct field of an encodable type, as seen by the extractor in the current source -/
structure Row where
  ty : String
  field : String
  enc : List String          -- proto fields that receive this field in ToProto/ToBytes
  dec : List String          -- proto fields this field is filled from in FromProto/FromBytes
  sig : List String          -- proto fields that receive it in ToSignatureBytes
  signed : Bool              -- the struct is (part of) a signed object
  allow : Option String      -- committed reason why the field is deliberately not part of the encoding (pure cache, …)
  unsigned : Option String   -- committed reason why an encoded field of a signed object is outside the signature
deriving Repr

def inter (a b : List String) : List String := a.filter (b.contains ·)

/-- the obligation on one row: allow-listed, or mapped in both directions through a common proto field and, for a
signed object, fed into the signature message unless explicitly exempt -/
def Row.ok (r : Row) : Bool :=
  r.allow.isSome ||
    (!(inter r.enc r.dec).isEmpty && (!r.signed || r.unsigned.isSome || !r.sig.isEmpty))

def TableOK (t : List Row) : Bool := t.all Row.ok

end IdenaModel.Codec
