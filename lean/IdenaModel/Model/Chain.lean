/-
M-Chain: the nonce/epoch discipline of accepted chains (C06), abstracted from
`applyTxOnState` (blockchain.go:1465-1478: `tx.Epoch = global.Epoch`, `tx.AccountNonce = currentNonce+1`
with `currentNonce = 0` when the account's epoch is older than the global epoch; then
`SetNonce(tx.nonce); SetEpoch(tx.epoch)`), `ValidateTx` clauses 4–5 (validation.go: `InvalidEpoch`,
`InvalidNonce`) and the epoch increment of a validation-finishing block.  Core Lean only.
Everything else that decides whether a transaction is applied (funds, type rules) can only turn an
acceptance into a rejection, so it is abstracted away: the model accepts *at most* what the code accepts
w.r.t. nonces, and the correspondence checks that everything the code accepted the model accepts.
-/
namespace IdenaModel.Chain

structure Acct where
  epoch : Nat
  nonce : Nat
  deriving Repr, DecidableEq

/-- abstract signed transaction: who signed it, for which epoch, with which nonce (`tag` distinguishes
different transactions that share the three) -/
structure ATx where
  sender : Nat
  epoch : Nat
  nonce : Nat
  tag : Nat := 0
  deriving Repr, DecidableEq

structure CState where
  epoch : Nat
  accts : Nat → Acct

def genesis : CState := { epoch := 0, accts := fun _ => ⟨0, 0⟩ }

/-- `currentNonce` of applyTxOnState -/
def curNonce (s : CState) (a : Nat) : Nat :=
  if (s.accts a).epoch < s.epoch then 0 else (s.accts a).nonce

/-- the application rule -/
def applyTx (s : CState) (t : ATx) : Option CState :=
  if t.epoch = s.epoch ∧ t.nonce = curNonce s t.sender + 1 then
    some { s with accts := fun a => if a = t.sender then ⟨t.epoch, t.nonce⟩ else s.accts a }
  else none

/-- the nonce/epoch clauses of `ValidateTx` (weaker than application: gaps and future epochs pass) -/
def validateOk (s : CState) (t : ATx) : Bool :=
  !(decide (s.epoch > t.epoch)) &&
  !(decide ((s.accts t.sender).nonce ≥ t.nonce) && decide ((s.accts t.sender).epoch = s.epoch) &&
    decide (t.epoch = s.epoch))

inductive Ev where
  | tx (t : ATx)
  | newEpoch
  /-- an epoch change that also clears dust accounts (`applyNewEpoch`: `clearDustAccounts` directly before `IncEpoch`,
  blockchain.go:733-735): the cleared accounts lose their nonce record -/
  | clearEpoch (dust : List Nat)
  deriving Repr

def step (s : CState) : Ev → Option CState
  | .tx t => applyTx s t
  | .newEpoch => some { s with epoch := s.epoch + 1 }
  | .clearEpoch d => some { epoch := s.epoch + 1, accts := fun a => if a ∈ d then ⟨0, 0⟩ else s.accts a }

def run : CState → List Ev → Option CState
  | s, [] => some s
  | s, e :: es => match step s e with
    | some s' => run s' es
    | none => none

/-- the transactions of an event list, in order -/
def txsOf : List Ev → List ATx
  | [] => []
  | .tx t :: es => t :: txsOf es
  | .newEpoch :: es => txsOf es
  | .clearEpoch _ :: es => txsOf es

/-- nonces used by sender `a` for epoch `e`, in chain order -/
def noncesOf (a e : Nat) (l : List ATx) : List Nat :=
  (l.filter (fun t => t.sender = a ∧ t.epoch = e)).map (·.nonce)

/-- clearing accounts WITHOUT an epoch change (what a dust clearing at any other moment would be) -/
def clearNow (s : CState) (d : List Nat) : CState :=
  { s with accts := fun a => if a ∈ d then ⟨0, 0⟩ else s.accts a }

end IdenaModel.Chain
