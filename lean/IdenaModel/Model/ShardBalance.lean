import IdenaModel.Model.Shards
/-!
M-ShardBalance (C01, epoch transition): `balanceShards` (blockchain/blockchain.go:939, called from `applyNewEpoch`) with its helpers
`appendToTop` and `calculateDiscriminationStakeThreshold`, modelled AS WRITTEN.  Core Lean only.

* An identity is `(id, kind, shard, stake)`: `kind` 0 = Verified/Human, 1 = Newbie, 2 = Suspended/Zombie, ≥ 3 = any other state;
  `shard` is `identity.ShiftedShardId()` (never 0); `stake` is `identity.Stake` with nil read as 0.  `ids` is the list in the order of
  `State.IterateOverIdentities` (the IAVL key order); `id` stands for the address (a map key: pairwise distinct).
* The three Go maps `verifiedByShard`, `newbiesByShard`, `suspendedByShard` are ONE association list keyed by `(kind, shard)`
  (`kind` 0, 1, 2 in this order); a missing key reads 0 as in Go; values are `Int` because the code decrements without a guard.
* The three slices `verifiedForRelocation`, `newbiesForRelocation`, `suspendedForRelocation` are the kind-0/1/2 parts of one list `sel`
  (each slice is appended to in iteration order, so it is `sel.filter (kind = k)`).
* Go's `rnd.Perm(len)` is NOT modelled: the three permutations are inputs (`permV`, `permN`, `permS`).  An input whose length differs
  from the slice it indexes, or that holds an index out of range, is outside the domain of the code (`run = none`); theorems assume a
  permutation of `0 … len-1`.
* `newShardsNum = 0` (only possible with `prevShardsNum = 0`, which `StateDB.ShardsNum()` never returns) would divide by zero in Go:
  `run = none`.
-/
namespace IdenaModel.ShardBalance

structure Ident where
  id : Nat
  kind : Nat
  shard : Nat
  stake : Nat
  deriving Repr, DecidableEq, Inhabited

/-- key of the per-shard counters: (kind, shard) -/
abbrev Key := Nat × Nat

/-- the three `map[common.ShardId]int` as one association list -/
abbrev Cnt := List (Key × Int)

def get : Cnt → Key → Int
  | [], _ => 0
  | (k', v) :: t, k => if k' = k then v else get t k

def set : Cnt → Key → Int → Cnt
  | [], k, v => [(k, v)]
  | (k', v') :: t, k, v => if k' = k then (k, v) :: t else (k', v') :: set t k v

/-- `m[k] += d` -/
def add (c : Cnt) (k : Key) (d : Int) : Cnt := set c k (get c k + d)

/-! ### the top stakes and the discrimination threshold -/

/-- `appendToTop(data, elem, limit)`: `index` = the least `i` with `data[i] < elem` (`sort.Search` on a descending slice);
a full slice drops its last element when the new one is inserted, and is returned unchanged when `index = len`. -/
def appendToTop (data : List Nat) (elem limit : Nat) : List Nat :=
  let hi := data.takeWhile (fun d => decide (d ≥ elem))     -- data[:index]
  let lo := data.dropWhile (fun d => decide (d ≥ elem))     -- data[index:]
  if data.length = limit then
    if lo.isEmpty then data else hi ++ elem :: lo.dropLast
  else hi ++ elem :: lo

/-- `calculateDiscriminationStakeThreshold(sortedStakes)`; `none` = nil -/
def threshold (l : List Nat) : Option Nat :=
  if l.isEmpty then none
  else
    let n := l.length
    let median := if n % 2 = 0 then (l.getD (n / 2 - 1) 0 + l.getD (n / 2) 0) / 2 else l.getD (n / 2) 0
    some (median * 5 / 1000)

/-- the sequence of `appendToTop` calls of the selection loop: one per selected identity of kind 0 or 1, in iteration order -/
def topStakes (sel : List Ident) (limit : Nat) : List Nat :=
  (sel.filter (fun x => decide (x.kind < 2))).foldl (fun t x => appendToTop t x.stake limit) []

/-! ### the selection loop -/

/-- the relocation condition of one `case`: `cnt[shard] > desired || shard >= newShardsNum` (kinds ≥ 3 fall through the switch) -/
def wants (nn : Nat) (des : Nat → Nat) (c : Cnt) (x : Ident) : Bool :=
  decide (x.kind < 3) && (decide (get c (x.kind, x.shard) > (des x.kind : Int)) || decide (x.shard ≥ nn))

structure Sel where
  sel : List Ident     -- appended to a `…ForRelocation` slice, in iteration order
  rest : List Ident    -- everybody else, in iteration order
  cnt : Cnt            -- the counters after the loop
  deriving Repr

/-- `IterateOverIdentities(func …)` with the in-loop decrement of the counter of the identity's old shard -/
def select (nn : Nat) (des : Nat → Nat) : Cnt → List Ident → Sel
  | c, [] => ⟨[], [], c⟩
  | c, x :: xs =>
    if wants nn des c x then
      let r := select nn des (add c (x.kind, x.shard) (-1)) xs
      { r with sel := x :: r.sel }
    else
      let r := select nn des c xs
      { r with rest := x :: r.rest }

/-! ### the fill loops and the round-robin remainder -/

/-- `for cnt[shardId] < desired && idx < len(shuffled) { SetShardId(addr, shardId); idx++; cnt[shardId]++ }`;
returns the counters, the part of the queue not consumed, and the `SetShardId` calls made, in order -/
def fillLoop (key : Key) (des : Int) : Cnt → List Ident → Cnt × List Ident × List (Ident × Nat)
  | c, [] => (c, [], [])
  | c, x :: q =>
    if get c key < des then
      let r := fillLoop key des (add c key 1) q
      (r.1, r.2.1, (x, key.2) :: r.2.2)
    else (c, x :: q, [])

/-- `shardId++; if shardId > newShardsNum { shardId = 1 }` -/
def nextShard (nn sh : Nat) : Nat := if sh + 1 > nn then 1 else sh + 1

/-- `for idx < len(shuffled) { SetShardId(addr, shardId); cnt[shardId]++; shardId++ (wrap); idx++ }`;
returns the running shard id, the counters and the calls made -/
def rrLoop (nn kind : Nat) : Nat → Cnt → List Ident → Nat × Cnt × List (Ident × Nat)
  | sh, c, [] => (sh, c, [])
  | sh, c, x :: q =>
    let r := rrLoop nn kind (nextShard nn sh) (add c (kind, sh) 1) q
    (r.1, r.2.1, (x, sh) :: r.2.2)

structure St where
  cnt : Cnt
  qv : List Ident      -- verifiedForRelocation[shuffled[verifiedIdx:]]
  qn : List Ident
  qs : List Ident
  asg : List (Ident × Nat)   -- every `SetShardId(addr, shard)` so far, in call order
  deriving Repr

/-- the body of `for shardId := 1; shardId <= newShardsNum; shardId++`: verified, newbies, suspended -/
def fillShard (des : Nat → Nat) (s : St) (sh : Nat) : St :=
  let a := fillLoop (0, sh) (des 0) s.cnt s.qv
  let b := fillLoop (1, sh) (des 1) a.1 s.qn
  let c := fillLoop (2, sh) (des 2) b.1 s.qs
  ⟨c.1, a.2.1, b.2.1, c.2.1, s.asg ++ a.2.2 ++ b.2.2 ++ c.2.2⟩

/-- the three remainder loops; ONE `shardId` runs through all of them -/
def remainder (nn : Nat) (s : St) : St :=
  let a := rrLoop nn 0 1 s.cnt s.qv
  let b := rrLoop nn 1 a.1 a.2.1 s.qn
  let c := rrLoop nn 2 b.1 b.2.1 s.qs
  ⟨c.2.1, [], [], [], s.asg ++ a.2.2 ++ b.2.2 ++ c.2.2⟩

/-- both phases -/
def distribute (nn : Nat) (des : Nat → Nat) (s : St) : St :=
  remainder nn ((List.range' 1 nn).foldl (fillShard des) s)

/-! ### the whole function -/

structure Input where
  prev : Nat                 -- appState.State.ShardsNum()
  totV : Nat
  totN : Nat
  totS : Nat
  cnt : Cnt                  -- the three maps as passed by the caller
  ids : List Ident           -- IterateOverIdentities order
  permV : List Nat
  permN : List Nat
  permS : List Nat

structure Output where
  newNum : Nat               -- SetShardsNum
  sizes : List Nat           -- SetShardSize(i, ·) for i = 1 … newNum, in this order
  asg : List (Ident × Nat)   -- the SetShardId calls in order
  final : List Ident         -- the identities, in iteration order, with the shard they have afterwards
  threshold : Option Nat     -- the returned discrimination stake threshold (none = nil)
  relocated : Nat × Nat × Nat
  deriving Repr, DecidableEq

def Input.total (i : Input) : Nat := i.totN + i.totV + i.totS

def Input.tot (i : Input) : Nat → Nat
  | 0 => i.totV
  | 1 => i.totN
  | 2 => i.totS
  | _ => 0

/-- `common.CalculateShardsNumber(MinShardSize, MaxShardSize, total, prevShardsNum)` -/
def Input.newNum (i : Input) : Nat := IdenaModel.Shards.shardsNum 2400 5000 i.total i.prev

/-- `desiredXInShard := totalX / newShardsNum` -/
def Input.des (i : Input) (k : Nat) : Nat := i.tot k / i.newNum

/-- `topStakesCnt` -/
def Input.topCnt (i : Input) : Nat := if i.totN + i.totV > 100 then 100 else i.totN + i.totV

def validPerm (perm : List Nat) (n : Nat) : Bool := decide (perm.length = n) && perm.all (fun j => decide (j < n))

/-- `slice[shuffled[0]], slice[shuffled[1]], …` -/
def shuffle (slice : List Ident) (perm : List Nat) : List Ident :=
  let a := slice.toArray
  perm.map (fun j => a.getD j default)

/-- `uint32(int)` -/
def toUint32 (v : Int) : Nat := (v % 4294967296).toNat

/-- the state's shard of an identity after the calls; `rasg` = the calls, newest first (the last `SetShardId` for an address wins) -/
def shardAfter (rasg : List (Ident × Nat)) (x : Ident) : Nat :=
  match rasg.find? (fun p => p.1.id == x.id) with
  | some p => p.2
  | none => x.shard

/-- the selection loop on the inputs -/
def Input.selection (i : Input) : Sel := select i.newNum i.des i.cnt i.ids

/-- `verifiedForRelocation` (k = 0), `newbiesForRelocation` (1), `suspendedForRelocation` (2) -/
def Input.rel (i : Input) (k : Nat) : List Ident := i.selection.sel.filter (fun x => x.kind == k)

/-- counters after the selection, the three shuffled slices, no call yet -/
def Input.start (i : Input) : St :=
  ⟨i.selection.cnt, shuffle (i.rel 0) i.permV, shuffle (i.rel 1) i.permN, shuffle (i.rel 2) i.permS, []⟩

/-- the shard an identity has after the calls `asg` -/
def after (asg : List (Ident × Nat)) (x : Ident) : Ident := { x with shard := shardAfter asg.reverse x }

def run (i : Input) : Option Output :=
  if i.newNum = 0 then none
  else if validPerm i.permV (i.rel 0).length && validPerm i.permN (i.rel 1).length && validPerm i.permS (i.rel 2).length then
    let top := topStakes i.selection.sel i.topCnt
    let s := distribute i.newNum i.des i.start
    some {
      newNum := i.newNum
      sizes := (List.range' 1 i.newNum).map (fun sh => toUint32 (get s.cnt (1, sh) + get s.cnt (0, sh) + get s.cnt (2, sh)))
      asg := s.asg
      final := let rasg := s.asg.reverse; i.ids.map (fun x => { x with shard := shardAfter rasg x })
      threshold := if top.isEmpty then none else threshold top
      relocated := ((i.rel 0).length, (i.rel 1).length, (i.rel 2).length) }
  else none

end IdenaModel.ShardBalance
