/-!
# M-Ledger — the state slice the transaction logic of idena-go reads and writes (core Lean only)

Sources: `core/state/state_object.go` (Account :383, Identity :442, Global :277, ApprovedIdentity, the
switch objects), `core/state/statedb.go` (getters return the zero value for a missing object; `GetOrNew…`
creates it), `core/validators/validators.go` (the validators view read by `ValidateTx`).

* Addresses are `Nat`; `0` is the empty address `common.Address{}`.
* Balances, stakes and contract stakes are `Int` on purpose: the Go code subtracts unchecked
  (`state_object.go:856 SubBalance`, `:1007 SubStake`), so non-negativity is a theorem (`Props/C04Tx.lean`).
* Every per-address map is a finite association list with a default (`AMap`): a missing object and the zero
  object are the same thing (existence of empty objects is not modelled).
* Funds fields and the other fields of accounts / identities are separate sub-records, so that a step which
  only touches bookkeeping cannot touch funds by construction.
-/
namespace IdenaModel.Ledger

/-- finite map `Nat → α` with default value; first entry for a key wins -/
abbrev AMap (α : Type) := List (Nat × α)

namespace AMap
variable {α : Type} [Inhabited α]

def empty : AMap α := []

def get : AMap α → Nat → α
  | [], _ => default
  | (k', v) :: t, k => if k' = k then v else get t k

/-- modify the value at `k` (the default if absent) -/
def upd : AMap α → Nat → (α → α) → AMap α
  | [], k, f => [(k, f default)]
  | (k', v) :: t, k, f => if k' = k then (k', f v) :: t else (k', v) :: upd t k f

def sum (g : α → Int) : AMap α → Int
  | [] => 0
  | (_, v) :: t => g v + sum g t

def keys (m : AMap α) : List Nat := m.map (·.1)

end AMap

/-- `state.IdentityState` (`state_object.go:17`) -/
inductive IdState
  | undefined | invite | candidate | verified | suspended | killed | zombie | newbie | human
  deriving DecidableEq, Repr, Inhabited

namespace IdState
def toNat : IdState → Nat
  | undefined => 0 | invite => 1 | candidate => 2 | verified => 3 | suspended => 4
  | killed => 5 | zombie => 6 | newbie => 7 | human => 8
def ofNat? : Nat → Option IdState
  | 0 => some undefined | 1 => some invite | 2 => some candidate | 3 => some verified | 4 => some suspended
  | 5 => some killed | 6 => some zombie | 7 => some newbie | 8 => some human | _ => none
/-- `state_object.go:66` -/
def newbieOrBetter (s : IdState) : Bool := s = newbie || s = verified || s = human
/-- `state_object.go:70` -/
def verifiedOrBetter (s : IdState) : Bool := s = verified || s = human
/-- `state_object.go:62` -/
def isInShard (s : IdState) : Bool := s.newbieOrBetter || s = candidate || s = suspended || s = zombie
end IdState

/-- `state.ValidationPeriod` (`state_object.go:146`) -/
inductive Period
  | none | flipLottery | shortSession | longSession | afterLong
  deriving DecidableEq, Repr, Inhabited

namespace Period
def toNat : Period → Nat
  | none => 0 | flipLottery => 1 | shortSession => 2 | longSession => 3 | afterLong => 4
def ofNat? : Nat → Option Period
  | 0 => some none | 1 => some flipLottery | 2 => some shortSession | 3 => some longSession
  | 4 => some afterLong | _ => Option.none
end Period

/-- `state.ContractData` reduced to what the transaction logic reads: the stake and whether the code hash
is one of `embedded.AvailableContracts` -/
structure Contract where
  stake : Int := 0
  embedded : Bool := true
  deriving DecidableEq, Repr, Inhabited

/-- spendable coins and contract deposit of an account -/
structure AFunds where
  balance : Int := 0
  contract : Option Contract := none
  deriving DecidableEq, Repr

instance : Inhabited AFunds := ⟨{}⟩

/-- replay counters of an account (`Account.Nonce`, `Account.Epoch`) -/
structure AMeta where
  nonce : Nat := 0
  epoch : Nat := 0
  deriving DecidableEq, Repr

instance : Inhabited AMeta := ⟨{}⟩

/-- staked coins of an identity: `Stake`, `lockedStake`, `replenishedStake` -/
structure IFunds where
  stake : Int := 0
  locked : Int := 0
  replenished : Int := 0
  deriving DecidableEq, Repr

instance : Inhabited IFunds := ⟨{}⟩

structure Flip where
  cid : Nat
  pair : Nat
  deriving DecidableEq, Repr, Inhabited

/-- the other identity fields the transaction logic reads or writes.  `delegatee` is the raw field;
`Identity.Delegatee()` / `PendingUndelegation()` (`state_object.go:600-612`) are derived below.
Inviter / invitee links carry only the address (transaction hash and epoch height are not modelled). -/
structure IInfo where
  state : IdState := .undefined
  invites : Nat := 0
  inviter : Option Nat := none
  invitees : List Nat := []
  delegatee : Option Nat := none
  pendingUndelegation : Bool := false
  delegationEpoch : Nat := 0
  undelegationEpoch : Nat := 0
  penaltySeconds : Nat := 0
  flips : List Flip := []
  requiredFlips : Nat := 0
  validationBits : Nat := 0
  shardId : Nat := 0
  profileHash : Nat := 0
  deriving DecidableEq, Repr

instance : Inhabited IInfo := ⟨{}⟩

/-- `Identity.Delegatee()` -/
def IInfo.effDelegatee (i : IInfo) : Option Nat := if i.pendingUndelegation then none else i.delegatee
/-- `Identity.PendingUndelegation()` -/
def IInfo.pendingUndeleg (i : IInfo) : Option Nat := if i.pendingUndelegation then i.delegatee else none

/-- what the validators cache (`ValidatorsCache`) answers about an address; read-only while a block is processed -/
structure RegEntry where
  validated : Bool := false
  online : Bool := false
  discriminated : Bool := false   -- `ValidatorsCache.IsDiscriminated` (pool-aware)
  pool : Bool := false
  deriving DecidableEq, Repr

instance : Inhabited RegEntry := ⟨{}⟩

/-- flags of the writable identity-state tree (`IdentityStateDB`), written by `Remove` -/
structure Appr where
  validated : Bool := false
  online : Bool := false
  deriving DecidableEq, Repr

instance : Inhabited Appr := ⟨{}⟩

/-- `state.Global` plus the three switch objects, the burnt-coins record of the current height and the two
network sizes (`netSize`: validators view of the state being validated; `headNetSize`: validators view of the
node's head state, which `getTxFee`/`getTxCost` use — `blockchain.go:1749,1959`) -/
structure Global where
  epoch : Nat := 0
  godAddress : Nat := 0
  godInvites : Nat := 0
  feePerGas : Nat := 0
  period : Period := .none
  discriminationThreshold : Nat := 0            -- 0 = nil or zero (`common.ZeroOrNil`)
  shardsNum : Nat := 0                          -- raw field; `ShardsNum()` maps 0 to 1
  shardSizes : AMap Nat := []
  statusSwitch : List Nat := []
  delegationSwitch : List (Nat × Nat) := []     -- (delegator, delegatee), delegatee 0 = empty address
  delayedPenalties : List Nat := []
  discriminationSwitch : List Nat := []
  burnt : List (Nat × Int) := []                -- burnt-coins items of the block height being built
  netSize : Nat := 0
  headNetSize : Nat := 0

instance : Inhabited Global := ⟨{}⟩

structure State where
  afunds : AMap AFunds := []
  ameta : AMap AMeta := []
  ifunds : AMap IFunds := []
  iinfo : AMap IInfo := []
  reg : AMap RegEntry := []
  appr : AMap Appr := []
  g : Global := {}

instance : Inhabited State := ⟨{}⟩

namespace State

/-! ### observations -/
def af (s : State) (a : Nat) : AFunds := s.afunds.get a
def am (s : State) (a : Nat) : AMeta := s.ameta.get a
def idf (s : State) (a : Nat) : IFunds := s.ifunds.get a
def ii (s : State) (a : Nat) : IInfo := s.iinfo.get a
def rg (s : State) (a : Nat) : RegEntry := s.reg.get a
def ap (s : State) (a : Nat) : Appr := s.appr.get a

def balance (s : State) (a : Nat) : Int := (s.af a).balance
def stake (s : State) (a : Nat) : Int := (s.idf a).stake
def cstake (s : State) (a : Nat) : Int := match (s.af a).contract with | some c => c.stake | none => 0
def idState (s : State) (a : Nat) : IdState := (s.ii a).state

/-! ### primitive steps -/
def modAF (s : State) (a : Nat) (f : AFunds → AFunds) : State := { s with afunds := s.afunds.upd a f }
def modAM (s : State) (a : Nat) (f : AMeta → AMeta) : State := { s with ameta := s.ameta.upd a f }
def modIF (s : State) (a : Nat) (f : IFunds → IFunds) : State := { s with ifunds := s.ifunds.upd a f }
def modII (s : State) (a : Nat) (f : IInfo → IInfo) : State := { s with iinfo := s.iinfo.upd a f }
def modAP (s : State) (a : Nat) (f : Appr → Appr) : State := { s with appr := s.appr.upd a f }
def modG (s : State) (f : Global → Global) : State := { s with g := f s.g }

/-- `AddBalance` / `SubBalance` (`state_object.go:843,856`): unchecked big-int arithmetic -/
def addBal (s : State) (a : Nat) (x : Int) : State := s.modAF a fun f => { f with balance := f.balance + x }
/-- `AddStake` / `SubStake` (`state_object.go:995,1007`) -/
def addStake (s : State) (a : Nat) (x : Int) : State := s.modIF a fun f => { f with stake := f.stake + x }
def addLocked (s : State) (a : Nat) (x : Int) : State := s.modIF a fun f => { f with locked := f.locked + x }
def addReplenished (s : State) (a : Nat) (x : Int) : State :=
  s.modIF a fun f => { f with replenished := f.replenished + x }
def setIdState (s : State) (a : Nat) (st : IdState) : State := s.modII a fun i => { i with state := st }
/-- `IdentityStateDB.Remove` (`identity_statedb.go:144`) -/
def apprRemove (s : State) (a : Nat) : State := s.modAP a fun _ => { validated := false, online := false }

end State

/-- sum of all balances, contract stakes and identity stakes (locked and replenished stake are parts of the stake) -/
def afVal (f : AFunds) : Int := f.balance + (match f.contract with | some c => c.stake | none => 0)

def ifVal (f : IFunds) : Int := f.stake

def total (s : State) : Int := s.afunds.sum afVal + s.ifunds.sum ifVal

/-- upgrade flags of `config.ConsensusConf` (`validation.SetAppConfig` / `chain.config`) -/
structure Cfg where
  u10 : Bool := false
  u11 : Bool := false
  u12 : Bool := false
  deriving DecidableEq, Repr, Inhabited

inductive TxType
  | send | activation | invite | kill | submitFlip | answersHash | shortAnswers | longAnswers | evidence
  | onlineStatus | killInvitee | changeGodAddress | burn | changeProfile | deleteFlip | deploy | call
  | terminate | delegate | undelegate | killDelegator | storeToIpfs | replenishStake
  | unknown   -- any other wire value
  deriving DecidableEq, Repr, Inhabited

namespace TxType
def ofCode : Nat → TxType
  | 0 => send | 1 => activation | 2 => invite | 3 => kill | 4 => submitFlip | 5 => answersHash
  | 6 => shortAnswers | 7 => longAnswers | 8 => evidence | 9 => onlineStatus | 10 => killInvitee
  | 11 => changeGodAddress | 12 => burn | 13 => changeProfile | 14 => deleteFlip | 15 => deploy
  | 16 => call | 17 => terminate | 18 => delegate | 19 => undelegate | 20 => killDelegator
  | 21 => storeToIpfs | 22 => replenishStake | _ => unknown
/-- `validation.CeremonialTxs` -/
def ceremonial (t : TxType) : Bool := t = answersHash || t = shortAnswers || t = longAnswers || t = evidence
/-- `validation.contractTxs` -/
def isContract (t : TxType) : Bool := t = deploy || t = call || t = terminate
/-- types with a zero fee rate (`fee_calc.go:63-67`) -/
def zeroFee (t : TxType) : Bool :=
  t = submitFlip || t = answersHash || t = shortAnswers || t = longAnswers || t = evidence ||
  t = activation || t = invite || t = kill
end TxType

/-- results of code outside the model, carried on the operation line (see `trusted_base`):
attachment parsers, public-key decoding, cid parsing, VRF verification, the contract VM -/
structure Ext where
  payloadAddr : Nat := 0          -- `crypto.PubKeyBytesToAddress(tx.Payload)` (0 when the key does not decode)
  attach : Bool := false          -- the type's `attachments.ParseXxx(tx)` returned non-nil
  cid : Nat := 0                  -- attachment cid (identifier of the byte string)
  pair : Nat := 0                 -- flip attachment pair
  cidOk : Bool := false           -- `cid.Parse` / `cid.Cast` succeeded (StoreToIpfs: and the cid is non-nil)
  online : Bool := false          -- online-status attachment flag
  keyNonEmpty : Bool := false     -- burn attachment key non-empty
  profileHash : Nat := 0          -- change-profile attachment hash (identifier)
  proofSalt : Bool := false       -- long-answers attachment has non-empty proof and salt
  vrfOk : Bool := false           -- sender key decodes and the VRF proof verifies against the words seed
  markedValid : Bool := false     -- `types.IsValidLongSessionAnswers(tx)` (cached earlier success)
  embedded : Bool := false        -- deploy attachment code hash ∈ `embedded.AvailableContracts`
  hasCode : Bool := false         -- deploy attachment carries wasm code
  isWasm : Bool := false          -- `vm.IsWasm(tx)`
  contractAddr : Nat := 0         -- `vm.ContractAddr(tx, sender)`
  vmSuccess : Bool := false       -- receipt.Success
  vmGasUsed : Nat := 0            -- receipt.GasUsed
  vmDeltas : List (Nat × Int) := []   -- net balance changes the VM applied to the state
  deriving Repr

instance : Inhabited Ext := ⟨{}⟩

structure Tx where
  type : TxType := .send
  sender : Nat := 0        -- `types.Sender(tx)`: the address recovered from the signature (0 = recovery failed)
  to : Option Nat := none
  amount : Int := 0        -- `AmountOrZero()`
  maxFee : Int := 0        -- `MaxFeeOrZero()`
  tips : Int := 0          -- `TipsOrZero()`
  nonce : Nat := 0
  epoch : Nat := 0
  payloadLen : Nat := 0
  gas : Nat := 0           -- `fee.CalculateGas(tx)` (10 × serialized size incl. per-type additions)
  ext : Ext := {}
  deriving Repr

instance : Inhabited Tx := ⟨{}⟩

/-- `validation.TxType` -/
inductive Mode
  | inBlock | mempool | inbound
  deriving DecidableEq, Repr, Inhabited

/-- error kinds of `ValidateTx` (the exported error values of `validation.go:37-69`; `other` = a wrapped
library error; `unknownType`) -/
inductive VErr
  | nodeAlreadyActivated | invalidSignature | invalidNonce | invalidEpoch | invalidAmount | insufficientFunds
  | insufficientInvites | recipientRequired | invitationIsMissing | emptyPayload | invalidPayload
  | invalidRecipient | earlyTx | lateTx | notCandidate | insufficientFlips | isAlreadyOnline | isAlreadyOffline
  | duplicatedFlip | duplicatedFlipPair | bigFee | invalidMaxFee | tooHighMaxFee | invalidSender
  | flipIsMissing | duplicatedTx | negativeValue | senderHasDelegatee | senderHasNoDelegatee | wrongEpoch
  | invalidDeployAmount | senderHasPenalty | unknownType | other
  deriving DecidableEq, Repr, Inhabited

inductive Outcome
  | ok
  | err (e : VErr)
  | panic
  deriving DecidableEq, Repr, Inhabited

/-- `fee.getFeePerGasForTx` (`fee_calc.go:59`) -/
def feeRate (n : Nat) (fpg : Nat) (tx : Tx) : Nat :=
  if n = 0 ∨ fpg = 0 then 0
  else if tx.type.zeroFee then 0
  else if tx.type = .onlineStatus then (if tx.ext.attach ∧ tx.ext.online then 2 * fpg else 0)
  else fpg

/-- `fee.CalculateFee` (`fee_calc.go:45`) -/
def calcFee (n : Nat) (fpg : Nat) (tx : Tx) : Int := (feeRate n fpg tx * tx.gas : Nat)

/-- `fee.CalculateCost` -/
def calcCost (n : Nat) (fpg : Nat) (tx : Tx) : Int := tx.amount + tx.tips + calcFee n fpg tx

/-- `fee.CalculateMaxCost` -/
def calcMaxCost (tx : Tx) : Int := tx.amount + tx.tips + tx.maxFee

/-- the nonce the next transaction of `a` has to exceed by one (`blockchain.go:1473-1477`) -/
def curNonce (s : State) (a : Nat) : Nat := if (s.am a).epoch < s.g.epoch then 0 else (s.am a).nonce

end IdenaModel.Ledger
