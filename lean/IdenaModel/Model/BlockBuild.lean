/-
M-BlockBuild (C02): the building path `filterTxs` (blockchain.go:2151) and the validating path `processTxs`
(blockchain.go:1358), parametric in the per-transaction verdict functions (`skip` = blacklist / applying-log,
`validate` = `ValidateTx(InBlock)`, `apply` = `applyTxOnState` returning the new state, fee, tips, gas).
Both gas regimes: Upgrade10 (the cap may be crossed by one last transaction) and legacy.  Core Lean only.
-/
namespace IdenaModel.BlockBuild

variable {S Tx : Type}

structure Acc (S : Type) where
  st : S
  fee : Nat
  tips : Nat
  gas : Nat
  deriving DecidableEq

/-- result of applying one transaction: new state, fee, tips, gas (incl. receipt gas) -/
abbrev Applied (S : Type) := S × Nat × Nat × Nat

def Acc.add (a : Acc S) (r : Applied S) : Acc S :=
  { st := r.1, fee := a.fee + r.2.1, tips := a.tips + r.2.2.1, gas := a.gas + r.2.2.2 }

/-- `filterTxs`, Upgrade10 regime: skip what does not validate or apply; the transaction that crosses the cap is
kept and ends the block. -/
def filterTxs (skip : Tx → Bool) (validate : S → Tx → Bool) (apply : S → Tx → Option (Applied S)) (cap : Nat) :
    Acc S → List Tx → List Tx × Acc S
  | a, [] => ([], a)
  | a, tx :: rest =>
    if skip tx then filterTxs skip validate apply cap a rest
    else if !validate a.st tx then filterTxs skip validate apply cap a rest
    else match apply a.st tx with
      | none => filterTxs skip validate apply cap a rest
      | some r =>
        if (a.add r).gas > cap then ([tx], a.add r)
        else
          let res := filterTxs skip validate apply cap (a.add r) rest
          (tx :: res.1, res.2)

/-- `processTxs`, Upgrade10 regime: strict; the cap may be crossed once. -/
def processTxs (validate : S → Tx → Bool) (apply : S → Tx → Option (Applied S)) (cap : Nat) :
    Acc S → Bool → List Tx → Option (Acc S)
  | a, _, [] => some a
  | a, reached, tx :: rest =>
    if !validate a.st tx then none
    else match apply a.st tx with
      | none => none
      | some r =>
        if (a.add r).gas > cap then
          if reached then none else processTxs validate apply cap (a.add r) true rest
        else processTxs validate apply cap (a.add r) reached rest

/-- legacy regime (`¬EnableUpgrade10`) of `filterTxs`: the transaction is applied to the check state *before* the
`usedGas+gas > cap` test and the loop then breaks without including it (the state keeps its effects). -/
def filterTxsLegacy (skip : Tx → Bool) (validate : S → Tx → Bool) (apply : S → Tx → Option (Applied S)) (cap : Nat) :
    Acc S → List Tx → List Tx × Acc S
  | a, [] => ([], a)
  | a, tx :: rest =>
    if skip tx then filterTxsLegacy skip validate apply cap a rest
    else if !validate a.st tx then filterTxsLegacy skip validate apply cap a rest
    else match apply a.st tx with
      | none => filterTxsLegacy skip validate apply cap a rest
      | some r =>
        if (a.add r).gas > cap then ([], { a with st := r.1 })
        else
          let res := filterTxsLegacy skip validate apply cap (a.add r) rest
          (tx :: res.1, res.2)

def processTxsLegacy (validate : S → Tx → Bool) (apply : S → Tx → Option (Applied S)) (cap : Nat) :
    Acc S → List Tx → Option (Acc S)
  | a, [] => some a
  | a, tx :: rest =>
    if !validate a.st tx then none
    else match apply a.st tx with
      | none => none
      | some r =>
        if (a.add r).gas > cap then none else processTxsLegacy validate apply cap (a.add r) rest

/-! ### validation that leaves traces (finding F18) and `ProposeBlock`'s re-derivation

`ValidateTx` and a failing `applyTxOnState` are not pure on the check state: reading an identity that does not exist
creates an empty dirty record there.  `validateD` / `applyD` return the state they leave behind also when they refuse. -/

/-- `filterTxs` with side effects: the check state carries the traces of refused candidates -/
def filterTxsD (skip : Tx → Bool) (validateD : S → Tx → Bool × S) (applyD : S → Tx → Option (Applied S) × S) (cap : Nat) :
    Acc S → List Tx → List Tx × Acc S
  | a, [] => ([], a)
  | a, tx :: rest =>
    if skip tx then filterTxsD skip validateD applyD cap a rest
    else
      let (ok, s1) := validateD a.st tx
      if !ok then filterTxsD skip validateD applyD cap { a with st := s1 } rest
      else match applyD s1 tx with
        | (none, s2) => filterTxsD skip validateD applyD cap { a with st := s2 } rest
        | (some r, _) =>
          let a' := ({ a with st := s1 } : Acc S).add r
          if a'.gas > cap then ([tx], a')
          else
            let res := filterTxsD skip validateD applyD cap a' rest
            (tx :: res.1, res.2)

/-- `processTxs` with the same side-effecting verdict functions (the validator's check state) -/
def processTxsD (validateD : S → Tx → Bool × S) (applyD : S → Tx → Option (Applied S) × S) (cap : Nat) :
    Acc S → Bool → List Tx → Option (Acc S)
  | a, _, [] => some a
  | a, reached, tx :: rest =>
    let (ok, s1) := validateD a.st tx
    if !ok then none
    else match applyD s1 tx with
      | (none, _) => none
      | (some r, _) =>
        let a' := ({ a with st := s1 } : Acc S).add r
        if a'.gas > cap then
          if reached then none else processTxsD validateD applyD cap a' true rest
        else processTxsD validateD applyD cap a' reached rest

/-- `ProposeBlock` (blockchain.go:2014-2035) after the repair: when a candidate was dropped the kept list is applied
again to a clean check state with the strict path, and that result is what the header is derived from; if even that
fails, the block is proposed without transactions. -/
def proposeD (skip : Tx → Bool) (validateD : S → Tx → Bool × S) (applyD : S → Tx → Option (Applied S) × S) (cap : Nat)
    (clean : Acc S) (txs : List Tx) : List Tx × Acc S :=
  let res := filterTxsD skip validateD applyD cap clean txs
  if res.1.length < txs.length then
    match processTxsD validateD applyD cap clean false res.1 with
    | some a => (res.1, a)
    | none => ([], clean)
  else res

/-- the code as found: the header is derived from the building path's own state -/
def proposeDAsFound (skip : Tx → Bool) (validateD : S → Tx → Bool × S) (applyD : S → Tx → Option (Applied S) × S)
    (cap : Nat) (clean : Acc S) (txs : List Tx) : List Tx × Acc S :=
  filterTxsD skip validateD applyD cap clean txs

end IdenaModel.BlockBuild
