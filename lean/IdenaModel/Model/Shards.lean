/-
M-Shards (C01, next-block parameters): `common.CalculateShardsNumber` (common/sharding.go): the number of shards after an
epoch, from the number of validated identities and the previous number of shards.  Core Lean only.
-/
namespace IdenaModel.Shards

/-- the doubling loop: `for { c *= 2; if n < max*c { return c } }` with fuel -/
def grow (max n : Nat) : Nat → Nat → Nat
  | 0, c => c
  | fuel + 1, c => let c' := c * 2; if n < max * c' then c' else grow max n fuel c'

/-- the halving loop: `for c > 1 { c /= 2; if n > min*c || c == 1 { return c } }` with fuel -/
def shrink (min n : Nat) : Nat → Nat → Nat
  | 0, c => c
  | fuel + 1, c =>
    if c > 1 then
      let c' := c / 2
      if n > min * c' ∨ c' = 1 then c' else shrink min n fuel c'
    else c

/-- `CalculateShardsNumber(minShardSize, maxShardSize, networkSize, currentShardsNum)`.  The Go loops need no fuel for
`cur ≥ 1`, `max ≥ 1` (the doubling reaches `n < max·c` after at most `n + 1` steps; the halving reaches 1); with
`cur = 0` and `n ≥ 0` the Go doubling loop does not terminate — `StateDB.ShardsNum()` never returns 0. -/
def shardsNum (min max n cur : Nat) : Nat :=
  if n ≥ max * cur then grow max n (n + 1) cur
  else if n ≤ min * cur then shrink min n (cur + 1) cur
  else cur

end IdenaModel.Shards
