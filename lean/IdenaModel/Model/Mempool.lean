/-!
# Model of the transaction pool (`core/mempool/txpool.go`, `core/mempool/txblock_builder.go`)

Sequential behaviour of `TxPool`, clause by clause.  Core Lean only (compiled into `oracle_c14`).

Representation choices (everything else follows the Go text):

* A transaction is a record; **the whole record is its identity** (the Go code identifies transactions by
  `tx.Hash()`; hash collision-freeness is built into the model, listed in the trusted base).  `id` is the
  label the harness gives to a hash, `gas` is `fee.CalculateGas(tx)`, `ty` the numeric `tx.Type`.
* `executableTxs : map[Address]*sortedTxs` is one flat list `exec`; the queue of sender `s` is
  `exec.filter (·.sender == s)` (order kept).  A Go map entry exists iff that filter is non-empty: the Go code
  stores an entry only after a successful `Add` (`txpool.go:428,568`) and deletes it when it becomes empty
  (`:531,:538,:574`).  The correspondence harness dumps the real maps entry by entry (an empty entry would show).
  `pendingTxs : map[Address]*txMap` is the flat list `pend` in the same way, `all : *txMap` is the list `all`.
* Go map enumeration orders are explicit inputs: `penum` (enumeration of one sender's pending map inside
  `txMap.Sorted`), `sord` (order in which `movePendingTxsToExecutable` visits senders), `enum`
  (order in which `createBuildingContext` meets the executable transactions).
* The chain as the pool sees it is a `View`: `State.Epoch()`, `State.ValidationPeriod()`, per sender
  `State.GetNonce/GetEpoch`, plus the two external predicates `restOk` (every clause of
  `validation.ValidateTx` other than the epoch and the nonce clause; first argument: txType = InboundTx?) and
  `feeOk` (`buildingContext.checkFee`).  Sequentially `pool.appState.State` and
  `pool.appState.Readonly(pool.head.Height())` denote the same committed state.
* Not modelled: `NonceCache` contents, `txKeeper` (disabled by `Initialize(…, false)`), `txSyncCounts`,
  `shortHashAll` (same key set as `all`), event-bus publications, statistics.
-/
namespace IdenaModel.Mempool

structure Tx where
  id : Nat
  sender : Nat
  nonce : Nat
  epoch : Nat
  gas : Nat
  ty : Nat
  deriving DecidableEq, Repr, Inhabited

/-- `priorityTypes = validation.CeremonialTxs` (`txpool.go:32`, `validation.go:75`):
SubmitAnswersHashTx 5, SubmitShortAnswersTx 6, SubmitLongAnswersTx 7, EvidenceTx 8 -/
def isPrio (t : Tx) : Bool := t.ty == 5 || t.ty == 6 || t.ty == 7 || t.ty == 8

structure Cfg where
  execSlots : Int        -- Mempool.TxPoolExecutableSlots
  queueSlots : Int       -- Mempool.TxPoolQueueSlots
  addrExecLimit : Int    -- Mempool.TxPoolAddrExecutableLimit
  addrQueueLimit : Int   -- Mempool.TxPoolAddrQueueLimit
  resetInCeremony : Bool -- Mempool.ResetInCeremony
  gasCap : Nat           -- types.MaxBlockSize(cfg.Consensus.EnableUpgrade11)
  coinbase : Nat         -- pool.coinbase (a sender label)
  maxDeferred : Nat      -- MaxDeferredTxs = 100

structure View where
  epoch : Nat
  period : Nat                 -- 0 None, 1 FlipLottery, 2 ShortSession, 3 LongSession, 4 AfterLongSession
  nonce : Nat → Nat
  accEpoch : Nat → Nat
  restOk : Bool → Tx → Bool
  feeOk : Tx → Bool

/-- the nonce the next transaction of `s` continues from (`txpool.go:412-417`, `:557-562`, `:700-704`) -/
def View.eff (v : View) (s : Nat) : Nat := if v.accEpoch s < v.epoch then 0 else v.nonce s

inductive Res where
  | ok | dup | multi | maxSize | mempoolFull | addrFull | invalidEpoch | invalidNonce | invalid | deferred
  deriving DecidableEq, Repr

/-- `validation.ValidateTx` (`validation.go:143-208`): epoch clause `:172`, nonce clause `:178`, the rest external -/
def validate (v : View) (inbound : Bool) (t : Tx) : Res :=
  if v.epoch > t.epoch then .invalidEpoch
  else if v.nonce t.sender ≥ t.nonce ∧ v.accEpoch t.sender = v.epoch ∧ t.epoch = v.epoch then .invalidNonce
  else if v.restOk inbound t then .ok else .invalid

structure Pool where
  exec : List Tx
  pend : List Tx
  all : List Tx
  syncing : Bool
  deferred : List (Tx × Bool)   -- channel content, oldest first; flag = tx.LoadHighPriority()
  known : List Tx               -- knownDeferredTxs

def Pool.empty : Pool := ⟨[], [], [], false, [], []⟩

def ofSender (l : List Tx) (s : Nat) : List Tx := l.filter (·.sender == s)

/-- `sortedTxs.Full` / `txMap.Full` (`txpool.go:799,888`) -/
def full (limit : Int) (len : Nat) : Bool := decide (limit > 0) && decide ((len : Int) ≥ limit)

/-- number of entries of the `pendingTxs` map -/
def pendSenders (p : Pool) : Nat := (p.pend.map (·.sender)).eraseDups.length

/-- `sortedTxs.Add` (`txpool.go:876-886`) on the queue `l`; `none` = appended -/
def sortedAdd (limit : Int) (l : List Tx) (t : Tx) : Option Res :=
  if !isPrio t && full limit l.length then some .addrFull
  else match l.getLast? with
    | some last => if t.nonce ≠ last.nonce + 1 ∨ t.epoch ≠ last.epoch then some .invalidNonce else none
    | none => none

/-- `putToPending` (`txpool.go:384-398`) -/
def putToPending (c : Cfg) (p : Pool) (t : Tx) : Except Res Pool :=
  let cur := ofSender p.pend t.sender
  if cur.isEmpty && decide (c.queueSlots > 0) && decide ((pendSenders p : Int) ≥ c.queueSlots) then .error .mempoolFull
  else if !isPrio t && full c.addrQueueLimit cur.length then .error .addrFull
  else .ok { p with pend := p.pend ++ [t] }

/-- `put` (`txpool.go:400-444`) -/
def put (c : Cfg) (v : View) (p : Pool) (t : Tx) : Except Res Pool :=
  let ex := ofSender p.exec t.sender
  let isExecutable := if ex.isEmpty then (t.epoch == v.epoch && t.nonce == v.eff t.sender + 1) else true
  let r : Except Res Pool :=
    if isExecutable then
      match sortedAdd c.addrExecLimit ex t with
      | none => .ok { p with exec := p.exec ++ [t] }
      | some _ => putToPending c p t
    else putToPending c p t
  match r with
  | .ok p' => .ok { p' with all := p'.all ++ [t] }
  | .error e => .error e

/-- `checkLimits` (`txpool.go:192-245`) -/
def checkLimits (c : Cfg) (p : Pool) (t : Tx) : Option Res :=
  if isPrio t then
    if (ofSender p.exec t.sender).any (·.ty == t.ty) then some .multi
    else if (ofSender p.pend t.sender).any (·.ty == t.ty) then some .multi
    else none
  else
    let total : Int := if c.execSlots < 0 || c.queueSlots < 0 then -1
      else c.execSlots * c.addrExecLimit + c.queueSlots * c.addrQueueLimit
    if decide (total > 0) && decide ((p.all.length : Int) ≥ total) then some .maxSize
    else
      let ex := ofSender p.exec t.sender
      if !ex.isEmpty && full c.addrExecLimit ex.length then
        let pe := ofSender p.pend t.sender
        if !pe.isEmpty && full c.addrQueueLimit pe.length then some .mempoolFull
        else if decide (c.queueSlots > 0) && decide ((pendSenders p : Int) ≥ c.queueSlots) then some .mempoolFull
        else none
      else none

/-- `add` (`txpool.go:324-382`) -/
def add (c : Cfg) (v : View) (p : Pool) (t : Tx) (inbound : Bool) : Pool × Res :=
  if t ∈ p.all then (p, .dup)
  else match checkLimits c p t with
    | some e => (p, e)
    | none =>
      match validate v inbound t with
      | .ok => match put c v p t with
        | .ok p' => (p', .ok)
        | .error e => (p, e)
      | e => (p, e)

/-- `addDeferredTx` (`txpool.go:154-171`): bounded channel, the oldest entry is dropped when full -/
def addDeferred (c : Cfg) (p : Pool) (t : Tx) (hp : Bool) : Pool :=
  if t ∈ p.known then p
  else
    let q := p.deferred
    let q1 := if q.length < c.maxDeferred then q ++ [(t, hp)]
      else
        let q' := q.drop 1
        if q'.length < c.maxDeferred then q' ++ [(t, hp)] else q'
    { p with deferred := q1, known := t :: p.known }

/-- `AddExternalTxs` with one transaction (`txpool.go:252-286`); the deferred case returns nil (`deferred`) -/
def addExternal (c : Cfg) (v : View) (p : Pool) (t : Tx) (inbound : Bool) : Pool × Res :=
  if p.syncing && t.sender != c.coinbase then (addDeferred c p t false, .deferred)
  else add c v p t inbound

/-- `AddInternalTx` (`txpool.go:288-322`); while syncing the result of `add` is dropped and nil returned -/
def addInternal (c : Cfg) (v : View) (p : Pool) (t : Tx) : Pool × Res :=
  if p.syncing then
    let p1 := addDeferred c p t true
    ((add c v p1 t true).1, .deferred)
  else add c v p t true

/-- `sortedTxs.Remove` (`txpool.go:892-902`): `sort.Search` for the first nonce ≥ the transaction's, removed if it is
the same transaction.  Queues are sorted by nonce (`WF.sorted`), so the binary search is the first match. -/
def execRemove (exec : List Tx) (t : Tx) : List Tx :=
  match (ofSender exec t.sender).find? (fun x => decide (x.nonce ≥ t.nonce)) with
  | some x => if x = t then exec.erase t else exec
  | none => exec

/-- `Remove` (`txpool.go:519-544`) -/
def remove (p : Pool) (t : Tx) : Pool :=
  { p with all := p.all.erase t, exec := execRemove p.exec t, pend := p.pend.erase t }

/-- stable insertion sort by (epoch, nonce): `txMap.Sorted` (`txpool.go:813-830`) after the map enumeration -/
def pendLe (a b : Tx) : Bool := a.epoch < b.epoch || (a.epoch == b.epoch && a.nonce ≤ b.nonce)

def insertBy (le : Tx → Tx → Bool) (t : Tx) : List Tx → List Tx
  | [] => [t]
  | x :: xs => if le t x then t :: x :: xs else x :: insertBy le t xs

def sortBy (le : Tx → Tx → Bool) (l : List Tx) : List Tx := l.foldr (insertBy le) []

/-- inner loop of `movePendingTxsToExecutable` for one sender (`txpool.go:555-573`) -/
def promoteLoop (c : Cfg) (v : View) (s : Nat) : List Tx → Pool → Pool
  | [], p => p
  | t :: rest, p =>
    let ex := ofSender p.exec s
    if ex.isEmpty && (v.epoch != t.epoch || t.nonce != v.eff s + 1) then p
    else match sortedAdd c.addrExecLimit ex t with
      | none => promoteLoop c v s rest { p with exec := p.exec ++ [t], pend := p.pend.erase t }
      | some _ => p

/-- `movePendingTxsToExecutable` (`txpool.go:546-578`) -/
def movePending (c : Cfg) (v : View) (p : Pool) (sord : List Nat) (penum : List Tx → List Tx) : Pool :=
  sord.foldl (fun p s => promoteLoop c v s (sortBy pendLe (penum (ofSender p.pend s))) p) p

/-- `ResetTo` runs its second half unless `!ResetInCeremony && ValidationPeriod() > FlipLotteryPeriod` (`:595`) -/
def fullReset (c : Cfg) (v : View) : Bool := c.resetInCeremony || decide (v.period ≤ 1)

/-- the transactions the second half of `ResetTo` collects in `removingTxs` (`txpool.go:629-673`) -/
def removable (v : View) (all : List Tx) (t : Tx) : Bool :=
  decide (t.epoch < v.epoch) ||
  (t.epoch == v.epoch &&
    (validate v false t == .invalidNonce ||
     all.any (fun e => e.epoch == v.epoch && e.sender == t.sender && decide (e.nonce ≤ t.nonce) &&
                      validate v false e != .ok && validate v false e != .invalidNonce)))

/-- `ResetTo` (`txpool.go:580-684`) in the view reached by the block -/
def resetTo (c : Cfg) (v : View) (p : Pool) (block : List Tx) (sord : List Nat) (penum : List Tx → List Tx) : Pool :=
  let p1 := block.foldl remove p
  let p2 := movePending c v p1 sord penum
  if fullReset c v then (p2.all.filter (removable v p2.all)).foldl remove p2
  else p2

def StartSync (p : Pool) : Pool := { p with syncing := true }

/-- `StopSync` (`txpool.go:734-759`) -/
def stopSync (c : Cfg) (v : View) (p : Pool) (block : List Tx) (sord : List Nat) (penum : List Tx → List Tx) : Pool :=
  let p1 := resetTo c v { p with syncing := false } block sord penum
  let p2 := p1.deferred.foldl
    (fun q e => if e.2 then (addInternal c v q e.1).1 else (addExternal c v q e.1 false).1)
    { p1 with deferred := [] }
  { p2 with known := [] }

/-! ## Block candidate construction -/

def nonceLe (a b : Tx) : Bool := a.nonce ≤ b.nonce

structure BCtx where
  cur : Nat → Nat              -- curNoncesPerSender
  perSender : Nat → List Tx    -- sortedTxsPerSender
  blockTxs : List Tx
  blockGas : Nat

def upd {α : Type} (f : Nat → α) (s : Nat) (x : α) : Nat → α := fun s' => if s' = s then x else f s'

/-- inner loop of `addNextPriorityTxToBlock` (`txblock_builder.go:62-79`).  `none` = index out of range (Go panic),
`some none` = loop left without reaching the priority transaction, `some (some (txsToAdd, gasToAdd, currentNonce, rest))` -/
def prioWalk (feeOk : Tx → Bool) (cap blockGas : Nat) (prio : Tx) :
    List Tx → Nat → List Tx → Nat → Option (Option (List Tx × Nat × Nat × List Tx))
  | [], _, _, _ => none
  | t :: rest, cur, acc, g =>
    if cur + 1 ≠ t.nonce then some none
    else if !feeOk t then some none
    else if blockGas + (g + t.gas) > cap then some none
    else if t = prio then some (some (acc ++ [t], g + t.gas, t.nonce, rest))
    else prioWalk feeOk cap blockGas prio rest t.nonce (acc ++ [t]) (g + t.gas)

/-- `addPriorityTxsToBlock` (`txblock_builder.go:44-94`); `none` = panic -/
def addPrio (feeOk : Tx → Bool) (cap : Nat) : List Tx → BCtx → Option BCtx
  | [], ctx => some ctx
  | pt :: rest, ctx =>
    match prioWalk feeOk cap ctx.blockGas pt (ctx.perSender pt.sender) (ctx.cur pt.sender) [] 0 with
    | none => none
    | some none => addPrio feeOk cap rest ctx
    | some (some (txs, g, cur, remaining)) =>
      addPrio feeOk cap rest
        { blockTxs := ctx.blockTxs ++ txs, blockGas := ctx.blockGas + g,
          cur := upd ctx.cur pt.sender cur, perSender := upd ctx.perSender pt.sender remaining }

/-- `addTxsToBlock` (`txblock_builder.go:96-111`) -/
def addTxs (feeOk : Tx → Bool) (cap : Nat) : List Tx → BCtx → BCtx
  | [], ctx => ctx
  | t :: rest, ctx =>
    if !feeOk t then addTxs feeOk cap rest ctx
    else if ctx.cur t.sender + 1 ≠ t.nonce then addTxs feeOk cap rest ctx
    else if ctx.blockGas + t.gas > cap then ctx
    else addTxs feeOk cap rest
      { ctx with blockTxs := ctx.blockTxs ++ [t], blockGas := ctx.blockGas + t.gas, cur := upd ctx.cur t.sender t.nonce }

/-- `createBuildingContext` (`txpool.go:686-726`): the sorted candidate list; `enum` = the executable
transactions in the order the Go map enumeration meets them -/
def candidates (v : View) (enum : List Tx) : List Tx :=
  sortBy nonceLe (enum.filter (·.epoch == v.epoch))

/-- `BuildBlockTransactions` (`txpool.go:512-517`); `none` = panic -/
def build (c : Cfg) (v : View) (enum : List Tx) : Option (List Tx) :=
  let txs := candidates v enum
  let withPrio := txs.any isPrio
  let ctx0 : BCtx :=
    { cur := v.eff, perSender := if withPrio then ofSender txs else fun _ => [], blockTxs := [], blockGas := 0 }
  match addPrio v.feeOk c.gasCap (if withPrio then txs.filter isPrio else []) ctx0 with
  | none => none
  | some ctx1 => some (addTxs v.feeOk c.gasCap txs ctx1).blockTxs

/-! ## Histories -/

inductive Op where
  | addExt (t : Tx) (inbound : Bool)
  | addInt (t : Tx)
  | reset (block : List Tx) (v : View) (sord : List Nat) (penum : List Tx → List Tx)
  | setView (v : View)           -- blocks applied while syncing: `AddBlock` skips `ResetTo` (`blockchain.go:465`)
  | startSync
  | stopSync (block : List Tx) (v : View) (sord : List Nat) (penum : List Tx → List Tx)

structure St where
  view : View
  pool : Pool

def step (c : Cfg) (st : St) : Op → St
  | .addExt t inb => { st with pool := (addExternal c st.view st.pool t inb).1 }
  | .addInt t => { st with pool := (addInternal c st.view st.pool t).1 }
  | .reset b v so pe => { view := v, pool := resetTo c v st.pool b so pe }
  | .setView v => { st with view := v }
  | .startSync => { st with pool := StartSync st.pool }
  | .stopSync b v so pe => { view := v, pool := stopSync c v st.pool b so pe }

def run (c : Cfg) (st : St) (ops : List Op) : St := ops.foldl (step c) st

end IdenaModel.Mempool
