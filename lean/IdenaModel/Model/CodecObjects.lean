import IdenaModel.Model.CodecTable
/-!
# C18: the hashed / signed consensus objects as abstract messages

Lean counterparts of the hand-written `ToProto`/`ToSignatureBytes` bodies of the objects whose hash or signature
consensus depends on: the signed part and the full encoding of a transaction, the signed part of a vote, the proposed
and the empty block header (their encodings are the pre-images of `Transaction.Hash`, `ProposedHeader.Hash`,
`EmptyBlockHeader.Hash`, `crypto.SignatureHash`).  The driver compares each builder byte for byte with the real
function on every run (`txsig`, `txfull`, `votesig`, `phdr`, `ehdr`), and the schemas with the regenerated
descriptors (`schema … ⇒ ok pinned`).  Core Lean only.
-/
namespace IdenaModel.Codec
open IdenaModel.ProtoWire

/-- `ProtoTransaction.Data` (`protobuf/models.proto:7-16`) -/
def txDataSchema : Schema :=
  [(1, false, .int), (2, false, .int), (3, false, .int), (4, false, .bytes), (5, false, .bytes),
   (6, false, .bytes), (7, false, .bytes), (8, false, .bytes)]

/-- `ProtoTransaction` (`models.proto:6-20`) -/
def txSchema : Schema := [(1, false, .msg txDataSchema), (2, false, .bytes), (3, false, .int)]

/-- the signed fields of a `types.Transaction` as Go values (`*big.Int` = `Option Int`, `*Address` = `Option Bytes`) -/
structure TxSigned where
  nonce : Nat
  epoch : Nat
  type : Nat
  to : Option Bytes
  amount : Option Int
  maxFee : Option Int
  tips : Option Int
  payload : Bytes

/-- `(*Transaction).ToSignatureBytes` before `proto.Marshal` (types.go:852-866) -/
def txDataMsg (t : TxSigned) : Msg :=
  [(1, .int t.nonce), (2, .int t.epoch), (3, .int t.type), (4, .bytes (optEnc t.to)),
   (5, .bytes (bigEnc t.amount)), (6, .bytes (bigEnc t.maxFee)), (7, .bytes (bigEnc t.tips)),
   (8, .bytes t.payload)]

/-- WF of the signed part: a recipient is 20 bytes, amounts are non-negative (the sign is not representable) -/
def TxSigned.WF (t : TxSigned) : Prop :=
  (∀ a, t.to = some a → a.length = 20) ∧ 0 ≤ bigVal t.amount ∧ 0 ≤ bigVal t.maxFee ∧ 0 ≤ bigVal t.tips

/-- semantic equality of the signed part (`nil ≃ 0` for the three amounts) -/
def TxSigned.Same (t u : TxSigned) : Prop :=
  t.nonce = u.nonce ∧ t.epoch = u.epoch ∧ t.type = u.type ∧ t.to = u.to ∧
  bigVal t.amount = bigVal u.amount ∧ bigVal t.maxFee = bigVal u.maxFee ∧ bigVal t.tips = bigVal u.tips ∧
  t.payload = u.payload

structure TxFull where
  data : TxSigned
  signature : Bytes
  useRlp : Bool

def b2n (b : Bool) : Nat := if b then 1 else 0

/-- `(*Transaction).ToProto` (types.go:868-887): `Data` is always present -/
def txMsg (t : TxFull) : Msg :=
  [(1, .msg (txDataMsg t.data)), (2, .bytes t.signature), (3, .int (b2n t.useRlp))]

/-- `ProtoVote.Data` (`models.proto:197-204`) -/
def voteDataSchema : Schema :=
  [(1, false, .int), (2, false, .int), (3, false, .bytes), (4, false, .bytes), (5, false, .int), (6, false, .int)]

structure VoteSigned where
  round : Nat
  step : Nat
  parentHash : Bytes
  votedHash : Bytes
  turnOffline : Bool
  upgrade : Nat
deriving DecidableEq, Repr

/-- `(*Vote).ToSignatureBytes` (types.go:706-716) -/
def voteDataMsg (v : VoteSigned) : Msg :=
  [(1, .int v.round), (2, .int v.step), (3, .bytes v.parentHash), (4, .bytes v.votedHash),
   (5, .int (b2n v.turnOffline)), (6, .int v.upgrade)]

/-- `ProtoBlockHeader.Proposed` (`models.proto:23-40`) -/
def proposedSchema : Schema :=
  [(1, false, .bytes), (2, false, .int), (3, false, .int), (4, false, .bytes), (5, false, .bytes), (6, false, .bytes),
   (7, false, .bytes), (8, false, .int), (9, false, .bytes), (10, false, .bytes), (11, false, .bytes),
   (12, false, .bytes), (13, false, .bytes), (14, false, .int), (15, false, .bytes), (16, false, .bytes)]

/-- `types.ProposedHeader` (types.go:114-131) -/
structure ProposedHdr where
  parentHash : Bytes
  height : Nat
  time : Int
  txHash : Bytes
  proposerPubKey : Bytes
  root : Bytes
  identityRoot : Bytes
  flags : Nat
  ipfsHash : Bytes
  offlineAddr : Option Bytes
  txBloom : Bytes
  blockSeed : Bytes
  feePerGas : Option Int
  upgrade : Nat
  seedProof : Bytes
  receiptsCid : Bytes

def inI64 (z : Int) : Prop := -(2 ^ 63 : Int) ≤ z ∧ z < (2 ^ 63 : Int)

def ProposedHdr.WF (h : ProposedHdr) : Prop :=
  inI64 h.time ∧ (∀ a, h.offlineAddr = some a → a.length = 20) ∧ 0 ≤ bigVal h.feePerGas

/-- `(*ProposedHeader).ToProto` (types.go:659-681); `Hash()` is Keccak of its marshalling (types.go:683) -/
def proposedMsg (h : ProposedHdr) : Msg :=
  [(1, .bytes h.parentHash), (2, .int h.height), (3, .int (i64Enc h.time)), (4, .bytes h.txHash),
   (5, .bytes h.proposerPubKey), (6, .bytes h.root), (7, .bytes h.identityRoot), (8, .int h.flags),
   (9, .bytes h.ipfsHash), (10, .bytes (optEnc h.offlineAddr)), (11, .bytes h.txBloom), (12, .bytes h.blockSeed),
   (13, .bytes (bigEnc h.feePerGas)), (14, .int h.upgrade), (15, .bytes h.seedProof), (16, .bytes h.receiptsCid)]

/-- `ProtoBlockHeader.Empty` (`models.proto:42-50`) -/
def emptySchema : Schema :=
  [(1, false, .bytes), (2, false, .int), (3, false, .bytes), (4, false, .bytes), (5, false, .int),
   (6, false, .bytes), (7, false, .int)]

/-- `types.EmptyBlockHeader` (types.go:104-112) -/
structure EmptyHdr where
  parentHash : Bytes
  height : Nat
  root : Bytes
  identityRoot : Bytes
  time : Int
  blockSeed : Bytes
  flags : Nat

/-- `(*EmptyBlockHeader).ToProto` (types.go:688-699); `Hash()` at types.go:701 -/
def emptyMsg (h : EmptyHdr) : Msg :=
  [(1, .bytes h.parentHash), (2, .int h.height), (3, .bytes h.root), (4, .bytes h.identityRoot),
   (5, .int (i64Enc h.time)), (6, .bytes h.blockSeed), (7, .int h.flags)]

/-! ## the two-part header (`types.Header`, types.go:133-136) and its accessors (types.go:558-657) -/

structure HeaderM where
  proposed : Option ProposedHdr
  empty : Option EmptyHdr

/-- `(*Header).IsValid` (types.go:652): exactly one part -/
def HeaderM.valid (h : HeaderM) : Bool :=
  (h.empty.isNone && h.proposed.isSome) || (h.empty.isSome && h.proposed.isNone)

/-- which part `Hash()`, `Height()`, `ParentHash()` read: the proposed part first (types.go:558-577) -/
inductive Part where
  | proposed | empty | none
deriving DecidableEq, Repr

def HeaderM.hashPart (h : HeaderM) : Part :=
  match h.proposed, h.empty with
  | some _, _ => .proposed
  | none, some _ => .empty
  | none, none => .none

/-- the pre-image of `Hash()` -/
def HeaderM.hashMsg (h : HeaderM) : Option (Schema × Msg) :=
  match h.proposed, h.empty with
  | some p, _ => some (proposedSchema, proposedMsg p)
  | none, some e => some (emptySchema, emptyMsg e)
  | none, none => none

def HeaderM.height (h : HeaderM) : Option Nat :=
  match h.proposed, h.empty with
  | some p, _ => some p.height
  | none, some e => some e.height
  | none, none => none

def HeaderM.parentHash (h : HeaderM) : Option Bytes :=
  match h.proposed, h.empty with
  | some p, _ => some p.parentHash
  | none, some e => some e.parentHash
  | none, none => none

/-- `Root()`, `IdentityRoot()`, `Seed()`, `Time()`, `Flags()` read the EMPTY part first (types.go:579-633) -/
def HeaderM.root (h : HeaderM) : Option Bytes :=
  match h.empty, h.proposed with
  | some e, _ => some e.root
  | none, some p => some p.root
  | none, none => none

def HeaderM.identityRoot (h : HeaderM) : Option Bytes :=
  match h.empty, h.proposed with
  | some e, _ => some e.identityRoot
  | none, some p => some p.identityRoot
  | none, none => none

def HeaderM.seed (h : HeaderM) : Option Bytes :=
  match h.empty, h.proposed with
  | some e, _ => some e.blockSeed
  | none, some p => some p.blockSeed
  | none, none => none

def HeaderM.time (h : HeaderM) : Option Int :=
  match h.empty, h.proposed with
  | some e, _ => some e.time
  | none, some p => some p.time
  | none, none => none

def HeaderM.flags (h : HeaderM) : Option Nat :=
  match h.empty, h.proposed with
  | some e, _ => some e.flags
  | none, some p => some p.flags
  | none, none => none

/-! ## block certificates: `FullBlockCert.Compress` (types.go:1009) and the re-expansion of `ValidateBlockCert`
(blockchain.go:2428-2440) -/

/-- a vote as it sits in a `FullBlockCert`: the signed header and the signature -/
structure VoteM where
  hdr : VoteSigned
  signature : Bytes
deriving DecidableEq, Repr

/-- `types.BlockCertSignature`: the two per-vote signed flags travel next to every signature -/
structure CertSig where
  turnOffline : Bool
  upgrade : Nat
  signature : Bytes
deriving DecidableEq, Repr

/-- `types.BlockCert` -/
structure CertM where
  round : Nat
  step : Nat
  votedHash : Bytes
  sigs : List CertSig
deriving DecidableEq, Repr

/-- `(*FullBlockCert).Compress`: round, step and voted hash from the FIRST vote, flags and signature from EACH vote;
no votes ⇒ the zero certificate (zero hash = 32 zero bytes) -/
def compress : List VoteM → CertM
  | [] => ⟨0, 0, List.replicate 32 0, []⟩
  | v :: vs => ⟨v.hdr.round, v.hdr.step, v.hdr.votedHash,
      (v :: vs).map fun w => ⟨w.hdr.turnOffline, w.hdr.upgrade, w.signature⟩⟩

/-- the votes `ValidateBlockCert` rebuilds from a certificate over the parent hash it knows -/
def expand (parent : Bytes) (c : CertM) : List VoteM :=
  c.sigs.map fun s => ⟨⟨c.round, c.step, parent, c.votedHash, s.turnOffline, s.upgrade⟩, s.signature⟩

/-- `ProtoBlockCert` (`models.proto:81-92`) -/
def certSigSchema : Schema := [(1, false, .int), (2, false, .int), (3, false, .bytes)]
def certSchema : Schema := [(1, false, .int), (2, false, .int), (3, false, .bytes), (4, true, .msg certSigSchema)]

/-- `(*BlockCert).ToProto` (types.go:965-979) -/
def certMsg (c : CertM) : Msg :=
  [(1, .int c.round), (2, .int c.step), (3, .bytes c.votedHash)] ++
    c.sigs.map fun s => (4, Val.msg [(1, .int (b2n s.turnOffline)), (2, .int s.upgrade), (3, .bytes s.signature)])

/-- the schemas the theorems of `Props/C18.lean` are stated for; the driver compares them with the regenerated ones -/
def pinnedSchemas : List (String × Schema) :=
  [("ProtoTransaction.Data", txDataSchema), ("ProtoTransaction", txSchema), ("ProtoVote.Data", voteDataSchema),
   ("ProtoBlockHeader.Proposed", proposedSchema), ("ProtoBlockHeader.Empty", emptySchema),
   ("ProtoBlockCert", certSchema)]

end IdenaModel.Codec
