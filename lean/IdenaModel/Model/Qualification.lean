/-!
# Model of the validation decision, the answer store and the per-height epoch cache (C17)

Follows `/repo/core/ceremony/ceremony.go` and `/repo/core/ceremony/qualification.go` clause by clause.
Core Lean only (this file is compiled into the `oracle_c17` executable).

* Part A — `determineNewIdentityState` (ceremony.go:1484) and `determineIdentityBirthday` (ceremony.go:1467).
  The five float32 comparisons of the Go function are *inputs* of the model (`ScoreFlags`); the driver derives them
  float-free from the raw float32 bit patterns and cross-checks them with exact integer ratios.
* Part B — the answer store (`qualification.addAnswers/removeAnswers/persist/restore`, qualification.go:40-117, over
  `EpochDb.WriteAnswers/ReadAnswers`, epoch_db.go:150-204) and `ApplyNewEpoch` with `epochApplyingCache`
  (ceremony.go:1030-1260), plus a node-level model of chain growth / reset with the flag `clearOnReset`
  (true = the `BlockchainResetEvent` handler, ceremony.go:183-204, drops the cache; false = the code as found before
  the repair of finding F4, where the handler kept it).
-/
namespace IdenaModel.Qual

/-! ## Part A: decision table -/

/-- `state.IdentityState` (core/state/state_object.go:15-27) is a `uint8`; `other` stands for every code ≥ 9. -/
inductive IdState
  | undefined | invite | candidate | verified | suspended | killed | zombie | newbie | human | other
  deriving DecidableEq, Repr, Inhabited

/-- state_object.go:66 -/
def IdState.newbieOrBetter : IdState → Bool
  | .newbie | .verified | .human => true
  | _ => false

def IdState.ofCode (n : Nat) : IdState :=
  match n with
  | 0 => .undefined | 1 => .invite | 2 => .candidate | 3 => .verified | 4 => .suspended
  | 5 => .killed | 6 => .zombie | 7 => .newbie | 8 => .human | _ => .other

/-- `none` for `other`: the decision never returns it (`decision_total`). -/
def IdState.code : IdState → Option Nat
  | .undefined => some 0 | .invite => some 1 | .candidate => some 2 | .verified => some 3
  | .suspended => some 4 | .killed => some 5 | .zombie => some 6 | .newbie => some 7 | .human => some 8
  | .other => none

/-- outcomes of the float32 comparisons made inside `determineNewIdentityState` (common/network.go:30-35) -/
structure ScoreFlags where
  /-- `shortScore >= common.MinShortScore` (0.6) -/
  shortGeMin : Bool
  /-- `shortScore > 0` -/
  shortPos : Bool
  /-- `longScore >= common.MinLongScore` (0.75) -/
  longGeMin : Bool
  /-- `totalScore >= common.MinTotalScore` (0.75) -/
  totalGeMin : Bool
  /-- `totalScore >= common.MinHumanTotalScore` (0.92) -/
  totalGeHuman : Bool
  deriving DecidableEq, Repr, Inhabited

/-- every argument of `determineNewIdentityState` the result depends on -/
structure DecIn where
  prev : IdState
  /-- `identity.HasDoneAllRequiredFlips()`: `uint8(len(Flips)) >= RequiredFlips` (state_object.go:606) -/
  doneFlips : Bool
  sc : ScoreFlags
  /-- `totalQualifiedFlips` -/
  totalFlips : Nat
  /-- `shortQualifiedFlipsCount` -/
  shortFlips : Nat
  missed : Bool
  noQualShort : Bool
  nonQualLong : Bool
  /-- `candidateToNewbieFixEnabled` (`vc.epoch >= 93`) -/
  fix93 : Bool
  u10 : Bool
  u12 : Bool
  deriving DecidableEq, Repr, Inhabited

def minFlipsForVerified : Nat := 13   -- common/network.go:34
def minFlipsForHuman : Nat := 24      -- common/network.go:35

/-- ceremony.go:1486-1497 `shortSessionScoreCheck` -/
def shortCheck (u12 : Bool) (shortFlips : Nat) (sc : ScoreFlags) : Bool :=
  if !u12 then sc.shortGeMin
  else if shortFlips = 1 then true
  else if shortFlips = 2 then sc.shortPos
  else sc.shortGeMin

/-- ceremony.go:1484-1626, same clause order -/
def determineNewIdentityState (i : DecIn) : IdState :=
  let sc := shortCheck i.u12 i.shortFlips i.sc
  let longOk := i.sc.longGeMin
  let totOk := i.sc.totalGeMin
  let humOk := i.sc.totalGeHuman
  let geV := decide (i.totalFlips ≥ minFlipsForVerified)
  let geH := decide (i.totalFlips ≥ minFlipsForHuman)
  if !i.doneFlips then                                            -- :1499
    match i.prev with
    | .verified | .human => .suspended
    | _ => .killed
  else
  match i.prev with
  | .undefined => .undefined                                      -- :1511
  | .invite => .killed                                            -- :1513
  | .candidate =>                                                 -- :1515
    if i.missed then .killed
    else if i.noQualShort || (i.nonQualLong && sc) then
      (if i.u10 || i.fix93 then .newbie else .candidate)
    else if !sc || !longOk then .killed
    else .newbie
  | .newbie =>                                                    -- :1529
    if i.missed then .killed
    else if i.noQualShort || (i.nonQualLong && geV && totOk && sc) || (i.nonQualLong && !geV && sc) then .newbie
    else if geV && totOk && sc && longOk then .verified
    else if !geV && sc && longOk then .newbie
    else .killed
  | .verified =>                                                  -- :1545
    if i.missed then .suspended
    else if i.noQualShort || (i.nonQualLong && totOk && sc) then .verified
    else if geH && humOk && sc && longOk then .human
    else if geV && totOk && sc && longOk then .verified
    else .killed
  | .suspended =>                                                 -- :1559
    if i.missed then .zombie
    else if !i.u10 && (i.noQualShort || (i.nonQualLong && totOk && sc)) then .suspended
    else if geH && humOk && (sc || (i.u10 && i.noQualShort)) && (longOk || (i.u10 && i.nonQualLong)) then .human
    else if totOk && sc && longOk then .verified
    else if i.u10 && (i.noQualShort || (i.nonQualLong && totOk && sc)) then .verified
    else .killed
  | .zombie =>                                                    -- :1582
    if i.missed then .killed
    else if !i.u10 && (i.noQualShort || (i.nonQualLong && totOk && sc)) then .zombie
    else if geH && humOk && (sc || (i.u10 && i.noQualShort)) && (longOk || (i.u10 && i.nonQualLong)) then .human
    else if totOk && sc then .verified
    else if i.u10 && i.noQualShort then .verified
    else .killed
  | .human =>                                                     -- :1605
    if i.missed then .suspended
    else if i.noQualShort || (i.nonQualLong && humOk && sc) then .human
    else if i.nonQualLong then .suspended
    else if humOk && sc && longOk then .human
    else if totOk && sc && longOk then .verified
    else .suspended
  | .killed => .killed                                            -- :1622
  | .other => .undefined                                          -- :1625 (falls out of the switch)

/-- ceremony.go:1467-1482 -/
def determineIdentityBirthday (currentEpoch : Nat) (prev : IdState) (birthday : Nat) (new : IdState) : Nat :=
  match prev with
  | .candidate => if new = .newbie then currentEpoch else 0
  | .newbie | .verified | .human | .suspended | .zombie => birthday
  | _ => 0

/-- the status every non-candidate gets: ceremony.go:1228
`determineNewIdentityState(identity, 0, 0, 0, 0, true, false, false, …, 0, …)` -/
def nonCandidateIn (prev : IdState) (doneFlips fix93 u10 u12 : Bool) : DecIn :=
  { prev, doneFlips, sc := ⟨false, false, false, false, false⟩, totalFlips := 0, shortFlips := 0,
    missed := true, noQualShort := false, nonQualLong := false, fix93, u10, u12 }

/-! ### float32 comparisons, float-free (used by the driver to validate the `ScoreFlags` the Go side reports) -/

def f32IsNaN (x : Nat) : Bool := (x / 8388608) % 256 = 255 && x % 8388608 ≠ 0

/-- order-preserving key of a non-NaN float32 bit pattern (−0 and +0 both map to 0) -/
def f32Key (x : Nat) : Int :=
  let m : Int := Int.ofNat (x % 2147483648)
  if (x / 2147483648) % 2 = 1 then -m else m

def f32ge (a b : Nat) : Bool := !f32IsNaN a && !f32IsNaN b && decide (f32Key a ≥ f32Key b)
def f32gt (a b : Nat) : Bool := !f32IsNaN a && !f32IsNaN b && decide (f32Key a > f32Key b)

def bitsMinShort : Nat := 0x3F19999A   -- float32(0.6)
def bitsMinLong : Nat := 0x3F400000    -- float32(0.75)
def bitsMinTotal : Nat := 0x3F400000   -- float32(0.75)
def bitsMinHuman : Nat := 0x3F6B851F   -- float32(0.92)

def scoreFlagsOfBits (shortBits longBits totalBits : Nat) : ScoreFlags :=
  { shortGeMin := f32ge shortBits bitsMinShort
    shortPos := f32gt shortBits 0
    longGeMin := f32ge longBits bitsMinLong
    totalGeMin := f32ge totalBits bitsMinTotal
    totalGeHuman := f32ge totalBits bitsMinHuman }

/-! ## Part B.1: the answer store -/

/-- a transaction payload as the Go process holds it: a nil slice or a non-nil (possibly empty) one -/
inductive Payload
  | nil
  | bytes (b : List Nat)
  deriving DecidableEq, Repr, Inhabited

/-- what a proto3 `bytes` field gives back after `WriteAnswers`/`ReadAnswers` (epoch_db.go:150-204): an empty
value is not encoded and decodes as nil -/
def Payload.norm : Payload → Payload
  | .bytes [] => .nil
  | p => p

/-- payloads of transactions decoded from blocks are never non-nil-and-empty (`Transaction.FromBytes`) -/
def Payload.canonical (p : Payload) : Prop := p ≠ .bytes []

/-- maps `address ↦ payload` (`map[common.Address][]byte`); extensional on purpose -/
abbrev AMap := Nat → Option Payload

def AMap.empty : AMap := fun _ => none

structure QStore where
  /-- `q.shortAnswers`, `q.longAnswers` -/
  short : AMap
  long : AMap
  /-- the records `answers-short` / `answers-long` of the epoch database -/
  dbShort : AMap
  dbLong : AMap
  hasChanges : Bool

def QStore.init : QStore := ⟨AMap.empty, AMap.empty, AMap.empty, AMap.empty, false⟩

def QStore.get (s : QStore) (short : Bool) (a : Nat) : Option Payload := if short then s.short a else s.long a
def QStore.getDb (s : QStore) (short : Bool) (a : Nat) : Option Payload := if short then s.dbShort a else s.dbLong a

def AMap.set (m : AMap) (a : Nat) (v : Option Payload) : AMap := fun x => if x = a then v else m x

/-- qualification.go:40-57 `addAnswers`: first write wins -/
def QStore.add (s : QStore) (short : Bool) (a : Nat) (p : Payload) : QStore :=
  if (s.get short a).isSome then s
  else if short then { s with short := s.short.set a (some p), hasChanges := true }
  else { s with long := s.long.set a (some p), hasChanges := true }

/-- qualification.go:59-76 `removeAnswers` -/
def QStore.remove (s : QStore) (short : Bool) (a : Nat) : QStore :=
  if (s.get short a).isNone then s
  else if short then { s with short := s.short.set a none, hasChanges := true }
  else { s with long := s.long.set a none, hasChanges := true }

/-- qualification.go:78-105 `persist` -/
def QStore.persist (s : QStore) : QStore :=
  if !s.hasChanges then s
  else { s with dbShort := s.short, dbLong := s.long, hasChanges := false }

def AMap.restoreFrom (mem db : AMap) : AMap := fun a =>
  match db a with
  | some p => some p.norm
  | none => mem a

/-- qualification.go:107-120 `restore`: every stored entry overwrites the in-memory one -/
def QStore.restore (s : QStore) : QStore :=
  { s with short := s.short.restoreFrom s.dbShort, long := s.long.restoreFrom s.dbLong }

/-- `NewQualification` over the same epoch database (a new process, or `completeEpoch`/`Initialize`) -/
def QStore.fresh (s : QStore) : QStore :=
  { s with short := AMap.empty, long := AMap.empty, hasChanges := false }

/-- a restarted process: `Initialize` → `NewQualification` → `restoreState` → `restore` (ceremony.go:153-156, 331) -/
def QStore.restart (s : QStore) : QStore := s.fresh.restore

/-- what every reader of the store makes of an entry (qualification.go:234 `len(answerBytes) == 0` ⇒ "no answer";
`ParseShortAnswerBytesAttachment` / `ParseLongAnswerBytesAttachment` return nil for an empty payload as well):
absent, nil and empty are the same — the code as it is after the repair of finding F24 -/
def viewOf : Option Payload → Option (List Nat)
  | some (.bytes (b :: bs)) => some (b :: bs)
  | _ => none

/-- the code as found before that repair (`answerBytes == nil`): a non-nil empty payload counted as an answer -/
def viewOfAsFound : Option Payload → Option (List Nat)
  | some (.bytes b) => some b
  | _ => none

/-- the answer of `a` the epoch evaluation works with -/
def QStore.view (s : QStore) (short : Bool) (a : Nat) : Option (List Nat) := viewOf (s.get short a)
def QStore.viewAsFound (s : QStore) (short : Bool) (a : Nat) : Option (List Nat) := viewOfAsFound (s.get short a)

/-- an answers transaction of a block (`SubmitShortAnswersTx` / `SubmitLongAnswersTx`) -/
structure Tx where
  short : Bool
  sender : Nat
  payload : Payload
  deriving DecidableEq, Repr

/-- ceremony.go:804-823 `processCeremonyTxs` restricted to answers transactions -/
def QStore.addAll (s : QStore) (txs : List Tx) : QStore :=
  txs.foldl (fun s t => s.add t.short t.sender t.payload) s

/-- ceremony.go:204-206 `addBlock`: handle the block, then persist -/
def QStore.processBlock (s : QStore) (b : List Tx) : QStore := (s.addAll b).persist

/-- ceremony.go:180-197: the `BlockchainResetEvent` handler, answers part -/
def QStore.revert (s : QStore) (reverted : List Tx) : QStore :=
  (reverted.foldl (fun s t => s.remove t.short t.sender) s).persist

/-- the specification: the payload of the first transaction of that kind and sender in the chain -/
def firstWrite (txs : List Tx) (short : Bool) (a : Nat) : Option Payload :=
  (txs.find? (fun t => t.short == short && t.sender == a)).map (·.payload)

/-- how one block is lived through by a node: `crashes` = numbers of transactions processed before each crash
(every crash is followed by a restart, which re-processes the head block: `Initialize(currentBlock)` →
`addBlock(currentBlock)`), then the complete processing, then `restartsAfter` clean restarts -/
structure BlockSched where
  crashes : List Nat
  restartsAfter : Nat
  deriving Repr

def repeatN {α : Type} (f : α → α) : Nat → α → α
  | 0, x => x
  | n + 1, x => repeatN f n (f x)

def QStore.runBlock (s : QStore) (b : List Tx) (sch : BlockSched) : QStore :=
  let s1 := sch.crashes.foldl (fun s k => (s.addAll (b.take k)).restart) s
  let s2 := s1.processBlock b
  repeatN (fun s => s.restart.processBlock b) sch.restartsAfter s2

/-- a chain of blocks under a schedule (missing schedule entries = uneventful processing) -/
def QStore.runChain (s : QStore) : List (List Tx) → List BlockSched → QStore
  | [], _ => s
  | b :: bs, [] => (s.processBlock b).runChain bs []
  | b :: bs, sch :: schs => (s.runBlock b sch).runChain bs schs

/-! ## Part B.2: `ApplyNewEpoch` with the per-height cache -/

/-- ceremony.go:102-111 `cacheValue` (points in half units) -/
structure CacheValue where
  state : IdState
  prevState : IdState
  shortFlips : Nat
  shortPts2 : Nat
  birthday : Nat
  missed : Bool
  participated : Bool
  delegatee : Option Nat
  deriving DecidableEq, Repr

/-- per-candidate inputs of the decision as `ApplyNewEpoch` derives them from ceremony data and state
(ceremony.go:1115-1167) -/
structure CandIn where
  addr : Nat
  dec : DecIn
  birthday : Nat
  participated : Bool
  delegatee : Option Nat
  shortPts2 : Nat
  deriving Repr

/-- ceremony.go:1225-1243 -/
structure NonCandIn where
  addr : Nat
  prev : IdState
  doneFlips : Bool
  birthday : Nat
  delegatee : Option Nat
  deriving Repr

structure EvalIn where
  epoch : Nat
  networkSize : Nat
  cands : List CandIn
  nonCands : List NonCandIn
  u10 : Bool
  u12 : Bool
  deriving Repr

def EvalIn.fix93 (e : EvalIn) : Bool := decide (e.epoch ≥ 93)

/-- ceremony.go:1148-1167 -/
def candValue (e : EvalIn) (c : CandIn) : Nat × CacheValue :=
  let d : DecIn := { c.dec with fix93 := e.fix93, u10 := e.u10, u12 := e.u12 }
  let st := determineNewIdentityState d
  (c.addr, { state := st, prevState := c.dec.prev, shortFlips := c.dec.shortFlips, shortPts2 := c.shortPts2,
             birthday := determineIdentityBirthday e.epoch c.dec.prev c.birthday st,
             missed := c.dec.missed, participated := c.participated, delegatee := c.delegatee })

/-- ceremony.go:1227-1240 (`prevState` is left at its zero value there) -/
def nonCandValue (e : EvalIn) (c : NonCandIn) : Nat × CacheValue :=
  let st := determineNewIdentityState (nonCandidateIn c.prev c.doneFlips e.fix93 e.u10 e.u12)
  (c.addr, { state := st, prevState := .undefined, shortFlips := 0, shortPts2 := 0,
             birthday := determineIdentityBirthday e.epoch c.prev c.birthday st,
             missed := true, participated := false, delegatee := c.delegatee })

/-- ceremony.go:95-103 `epochApplyingCache`: the values in the order in which they were applied (`applyingOrder`);
the reward-related members are functions of the same values -/
structure CacheEntry where
  values : List (Nat × CacheValue)
  failed : Bool
  deriving Repr

/-- what the caller observes -/
structure EpochOut (S : Type) where
  failed : Bool
  identitiesCount : Nat
  post : S

def validatedCount (vs : List (Nat × CacheValue)) : Nat := (vs.filter (fun v => v.2.state.newbieOrBetter)).length

def applyAll {S : Type} (applyOne : S → Nat × CacheValue → S) (s : S) (vs : List (Nat × CacheValue)) : S :=
  vs.foldl applyOne s

def insertByAddr (x : Nat × CacheValue) : List (Nat × CacheValue) → List (Nat × CacheValue)
  | [] => [x]
  | y :: ys => if x.1 ≤ y.1 then x :: y :: ys else y :: insertByAddr x ys

/-- ceremony.go:1221-1228: `sort.Slice(applyingOrder, bytes.Compare …)` (addresses are distinct map keys) -/
def sortByAddr : List (Nat × CacheValue) → List (Nat × CacheValue)
  | [] => []
  | x :: xs => insertByAddr x (sortByAddr xs)

def cacheLookup (c : List (Nat × CacheEntry)) (h : Nat) : Option CacheEntry :=
  (c.find? (fun e => e.1 == h)).map (·.2)

/-- first evaluation, ceremony.go:1071-1285: candidates' values are applied in address order, then the
non-candidates shard by shard (`e.nonCands` is that concatenation); the order is recorded in the cache entry -/
def evalMiss {S : Type} (applyOne : S → Nat × CacheValue → S) (e : EvalIn) (s : S) : CacheEntry × EpochOut S :=
  let vals := e.cands.map (candValue e)
  if validatedCount vals = 0 then                                  -- :1194 nobody validated: nothing is applied
    (⟨vals, true⟩, ⟨true, e.networkSize, s⟩)
  else
    let ordered := sortByAddr vals
    let s1 := applyAll applyOne s ordered                          -- :1229
    let nvals := e.nonCands.map (nonCandValue e)
    let s2 := applyAll applyOne s1 nvals                           -- :1247
    (⟨ordered ++ nvals, false⟩, ⟨false, validatedCount ordered, s2⟩)

/-- ceremony.go:1033-1285 -/
def applyNewEpoch {S : Type} (applyOne : S → Nat × CacheValue → S)
    (cache : List (Nat × CacheEntry)) (height : Nat) (e : EvalIn) (s : S) :
    List (Nat × CacheEntry) × EpochOut S :=
  let miss := fun (_ : Unit) =>
    let r := evalMiss applyOne e s
    ((height, r.1) :: cache.filter (fun x => x.1 != height), r.2)
  match cacheLookup cache height with
  | some c =>
    if c.failed then (cache, ⟨true, e.networkSize, s⟩)             -- :1044
    else if c.values.length > 0 then                               -- :1054 replay in the recorded order
      (cache, ⟨false, validatedCount c.values, applyAll applyOne s c.values⟩)
    else miss ()
  | none => miss ()

/-! ## Part B.3: a node over a growing / reorganising chain -/

/-- `B` = blocks.  `evalIn chain` = the inputs `ApplyNewEpoch` derives from the ceremony data the node holds for
`chain` (which is a function of the chain by `store_is_function_of_chain`) and from the state at its head. -/
structure NodeCfg (B S : Type) where
  evalIn : List B → EvalIn
  stateOf : List B → S
  applyOne : S → Nat × CacheValue → S
  /-- true = the repaired handler (ceremony.go:183-204 drops `epochApplyingCache`); false = the code as found before
  the repair (finding F4), kept as a variant so that the witness theorem documents why the clearing is needed -/
  clearOnReset : Bool

structure Node (B : Type) where
  chain : List B
  cache : List (Nat × CacheEntry)

inductive NodeOp (B : Type)
  | addBlock (b : B)
  /-- `ResetTo(keep)` followed by the blocks of the other branch -/
  | reset (keep : Nat) (newBlocks : List B)
  /-- `ApplyNewEpoch(head+1, ForCheck(head))` (block proposal, proposal validation, block insertion) -/
  | eval

def Node.step {B S : Type} (cfg : NodeCfg B S) (n : Node B) : NodeOp B → Node B × Option (EpochOut S)
  | .addBlock b => ({ n with chain := n.chain ++ [b] }, none)
  | .reset keep bs =>
    ({ chain := n.chain.take keep ++ bs, cache := if cfg.clearOnReset then [] else n.cache }, none)
  | .eval =>
    let r := applyNewEpoch cfg.applyOne n.cache (n.chain.length + 1) (cfg.evalIn n.chain) (cfg.stateOf n.chain)
    ({ n with cache := r.1 }, some r.2)

/-- what a node that has only ever seen `chain` computes -/
def pureEval {B S : Type} (cfg : NodeCfg B S) (chain : List B) : EpochOut S :=
  (evalMiss cfg.applyOne (cfg.evalIn chain) (cfg.stateOf chain)).2

def Node.run {B S : Type} (cfg : NodeCfg B S) : Node B → List (NodeOp B) → List (Node B × Option (EpochOut S))
  | _, [] => []
  | n, op :: ops => let r := n.step cfg op; r :: Node.run cfg r.1 ops

end IdenaModel.Qual
