/-
Byte-string keys as natural numbers (used by the C13 driver): a key of at most `n` bytes is read as `n` base-257
digits, `b + 1` for a byte `b` and `0` for "no byte here" (right padding).  Core Lean only.
-/
namespace IdenaModel.KeyEmbed

/-- `enc n bs`: the first `n` positions of `bs` as base-257 digits -/
def enc : Nat → List Nat → Nat
  | 0, _ => 0
  | _ + 1, [] => 0
  | n + 1, b :: bs => (b + 1) * 257 ^ n + enc n bs

/-- the byte-wise lexicographic order of `bytes.Compare` (a proper prefix is smaller) -/
def lexLt : List Nat → List Nat → Bool
  | [], [] => false
  | [], _ :: _ => true
  | _ :: _, [] => false
  | b :: bs, c :: cs => if b < c then true else if b = c then lexLt bs cs else false

/-- a key the embedding is meant for: at most `n` bytes, each below 256 -/
def IsKey (n : Nat) (bs : List Nat) : Prop := bs.length ≤ n ∧ ∀ b ∈ bs, b < 256

end IdenaModel.KeyEmbed
