import IdenaModel.Model.Ledger
/-!
# M-Rewards — the block and epoch level of the ledger (core Lean only)

What `applyBlockOnState` (`blockchain/blockchain.go:487`) does to balances and stakes besides the transactions:
block rewards (`applyBlockRewards :597`, `rewardFinalCommittee :1279`, `splitReward helpers.go:74`,
`calculatePenalty :667`), the epoch step of a validation-finishing block (`applyNewEpoch :699`: the ceremony's
`applyOnState core/ceremony/ceremony.go:954`, stake unlocking `:853`, `rewardValidIdentities rewards.go:19`,
`clearDustAccounts :1113`) and the deletion of killed identities in `Precommit` (`core/state/statedb.go:1351`).
Status / delegation / discrimination switches, global parameters, the fee rate and the VRF threshold do not touch
funds (`blockchain.go:1836-1957`, `:1166`, `:1776`, `:1808`) and are not modelled.

Arithmetic is exact: amounts are `Int`/`Nat`, the `shopspring/decimal` constants are rationals `num/den`,
`math.ToInt` (`common/math/decimal.go:12`) is truncation toward zero, `Decimal.Div` is the library's `DivRound`
to 16 fractional digits, half away from zero (`decimal.go:488,542`).  What is **not** computed by the model and enters
as data of the event, for arbitrary values: the `big.Float` stake weights of the final committee (the model gets the
requested integer `⌊share·weight⌋` of each member), the `float32` weights of the epoch categories (the model gets
each weight and the category total as decimals with a common denominator), the validation outcome itself.

The state is ledger's `Ledger.State` (`Model/Ledger.lean`); only its funds maps are touched.
-/
namespace IdenaModel.Rewards
open IdenaModel.Ledger

/-- a decimal constant `num/den` -/
structure Rate where
  num : Nat
  den : Nat
  deriving DecidableEq, Repr, Inhabited

/-- `math.ToInt` of the decimal `n/d`: truncation toward zero (`big.Int.Quo`) -/
def toInt (n : Int) (d : Nat) : Int := Int.tdiv n d

/-- the reward constants of `config/consensus.go:97-131` (identical in v9…v12 but for the upgrade flags);
epoch percentages in hundredths -/
structure RCfg where
  blockReward : Nat := 1000000000000000000
  finalCommitteeReward : Nat := 5000000000000000000
  feeBurn : Rate := ⟨9, 10⟩
  stakeRate : Rate := ⟨2, 10⟩
  stakeRateNewbie : Rate := ⟨8, 10⟩
  pStaking : Nat := 18
  pCandidate : Nat := 2
  pFlipBasic : Nat := 15
  pFlipExtra : Nat := 20
  pFlipOld : Nat := 35          -- `FlipRewardPercent`, used instead of basic+extra before upgrade 10
  pInvitation : Nat := 18
  pReports : Nat := 15
  pFoundation : Nat := 10
  pZeroWallet : Nat := 2
  u10 : Bool := false
  u12 : Bool := false
  deriving DecidableEq, Repr, Inhabited

def RCfg.fullReward (c : RCfg) : Nat := c.blockReward + c.finalCommitteeReward

/-- percentage of the flip categories actually used (`rewards.go:299-304`) -/
def RCfg.flipBasic (c : RCfg) : Nat := if c.u10 then c.pFlipBasic else c.pFlipOld
def RCfg.flipExtra (c : RCfg) : Nat := if c.u10 then c.pFlipExtra else 0

/-- sum of the percentages `rewardValidIdentities` hands out -/
def RCfg.percentSum (c : RCfg) : Nat :=
  c.pStaking + c.pCandidate + c.flipBasic + c.flipExtra + c.pInvitation + c.pReports + c.pFoundation + c.pZeroWallet

/-! ### pure arithmetic -/

/-- `splitReward` (`helpers.go:74`): `(reward, stake)` -/
def splitReward (c : RCfg) (total : Int) (newbie : Bool) : Int × Int :=
  let r := if newbie then c.stakeRateNewbie else c.stakeRate
  let stake := toInt (total * r.num) r.den
  (total - stake, stake)

/-- fee part of `applyBlockRewards` (`blockchain.go:610-614`): `(burnt, credited to the proposer)` -/
def splitFee (c : RCfg) (totalFee : Int) : Int × Int :=
  let burn := toInt (totalFee * c.feeBurn.num) c.feeBurn.den
  (burn, totalFee - burn)

/-- penalty data of the identity a reward is charged against (`GetPenalty` with nil ↦ 0, `GetPenaltySeconds`,
`GetPenaltyTimestamp`) -/
structure Pen where
  amount : Int := 0
  seconds : Nat := 0
  ts : Int := 0
  deriving DecidableEq, Repr, Inhabited

structure PenOut where
  balAdd : Int
  stakeAdd : Int
  penSub : Option Int      -- `nil` ↦ none
  secSub : Nat
  deriving DecidableEq, Repr

/-- `calculatePenalty` (`blockchain.go:667`) -/
def calculatePenalty (bal stake : Int) (p : Pen) (blockTs : Int) : PenOut :=
  if p.amount = 0 ∧ p.seconds = 0 then ⟨bal, stake, none, 0⟩
  else if p.seconds > 0 then
    let sub : Nat :=
      if p.ts > 0 ∧ blockTs > p.ts then
        (if blockTs - p.ts ≥ (p.seconds : Int) then p.seconds else (blockTs - p.ts).toNat)
      else 0
    ⟨0, 0, none, sub⟩
  else if bal ≥ p.amount then ⟨bal - p.amount, stake, some p.amount, 0⟩
  else
    let remain := p.amount - bal
    if stake ≥ remain then ⟨0, stake - remain, some p.amount, 0⟩
    else ⟨0, 0, some (bal + stake), 0⟩

/-- `determineStakeShareToBurn` (`ceremony.go:1022`); the age is computed in `uint16` -/
def stakeShareToBurn (prev : IdState) (birthday curEpoch : Nat) : Nat :=
  match prev with
  | .human => 0
  | .suspended | .zombie =>
    let age := (curEpoch + 65536 - birthday % 65536) % 65536
    if age ≤ 4 then 100 else 10 - age
  | _ => 100

/-! ### block rewards -/

/-- one member of the final committee as `rewardFinalCommittee` sees it -/
structure Member where
  addr : Nat            -- stake destination
  dest : Nat            -- balance destination (`ValidatorsCache.Delegator(addr)` or `addr`)
  request : Nat         -- `⌊rewardShare · stakeWeight⌋` (`big.Float.Int`), before capping
  newbie : Bool
  pen : Pen := {}       -- penalty data of `dest`
  deriving Repr, Inhabited

/-- one loop iteration of `rewardFinalCommittee` (`blockchain.go:1289-1334`): `(paid, balAdd, stakeAdd)` -/
def payMember (c : RCfg) (blockTs : Int) (remaining : Nat) (m : Member) : Nat × Int × Int :=
  let r := if m.request > remaining then remaining else m.request
  let sp := splitReward c r m.newbie
  let po := calculatePenalty sp.1 sp.2 m.pen blockTs
  (r, po.balAdd, po.stakeAdd)

/-- `rewardFinalCommittee`: state after the credits and the paid total -/
def rewardFinalCommittee (c : RCfg) (blockTs : Int) : State → Nat → Nat → List Member → State × Nat
  | s, _, paid, [] => (s, paid)
  | s, remaining, paid, m :: ms =>
    let (r, b, st) := payMember c blockTs remaining m
    rewardFinalCommittee c blockTs ((s.addBal m.dest b).addStake m.addr st) (remaining - r) (paid + r) ms

structure Proposer where
  coinbase : Nat
  stakeDest : Nat        -- the coinbase, or the pool's sub-identity
  newbie : Bool
  pen : Pen := {}
  deriving Repr, Inhabited

/-- `blockProposerReward` (`blockchain.go:602-607`) -/
def proposerReward (c : RCfg) (paid : Nat) : Int :=
  let r : Int := (c.fullReward : Int) - paid
  if r ≤ 0 then 0 else r

/-- `applyBlockRewards` (`blockchain.go:597`) -/
def applyBlockRewards (c : RCfg) (s : State) (totalFee totalTips : Int) (blockTs : Int) (ms : List Member)
    (p : Proposer) : State :=
  let (s1, paid) := rewardFinalCommittee c blockTs s c.fullReward 0 ms
  let totalReward := proposerReward c paid + (splitFee c totalFee).2 + totalTips
  let sp := splitReward c totalReward p.newbie
  let po := calculatePenalty sp.1 sp.2 p.pen blockTs
  (s1.addBal p.coinbase po.balAdd).addStake p.stakeDest po.stakeAdd

/-! ### epoch rewards -/

def pow16 : Nat := 10000000000000000

/-- `Decimal.Div` of the non-negative decimals `xn/xd` and `wn/wd`, scaled by `10¹⁶`:
`⌊x/w·10¹⁶ + ½⌋` (`DivRound(…, 16)`: quotient, then one unit up iff twice the remainder reaches the divisor) -/
def decDiv16 (xn xd wn wd : Nat) : Nat := (2 * (xn * wd * pow16) + xd * wn) / (2 * (xd * wn))

/-- `ToInt(share.Mul(weight))` for `share = s16·10⁻¹⁶`, `weight = an/ad` -/
def payoutOf (s16 an ad : Nat) : Nat := s16 * an / (pow16 * ad)

structure Payee where
  addr : Nat            -- identity credited with the stake part
  dest : Nat            -- account credited with the balance part (`Delegatee` or `addr`)
  w : Nat               -- weight numerator (denominator: the category's `wScale`)
  newbie : Bool := false
  stakeOnly : Bool := false   -- invitee reward (upgrade 10): all of it to stake, replenished (and locked with upgrade 12)
  deriving Repr, Inhabited

/-- one reward category of `rewards.go`: the total weight the code divides by and the payees -/
structure CatIn where
  wTotal : Nat := 0
  wScale : Nat := 1
  payees : List Payee := []
  deriving Repr, Inhabited

/-- share of one weight unit, scaled by `10¹⁶`: `pool·pct/100 / (wTotal/wScale)` -/
def catShare (pool pct : Nat) (cat : CatIn) : Nat := decDiv16 (pool * pct) 100 cat.wTotal cat.wScale

/-- amounts the payees of a category receive (none when the total weight is zero: the code skips the category
or multiplies a zero share) -/
def catPayouts (pool pct : Nat) (cat : CatIn) : List Nat :=
  if cat.wTotal = 0 then cat.payees.map fun _ => 0
  else cat.payees.map fun p => payoutOf (catShare pool pct cat) p.w cat.wScale

/-- `addReward` / `addRewardToStake` closures of `rewards.go` -/
def credit (c : RCfg) (s : State) (p : Payee) (amt : Nat) : State :=
  if p.stakeOnly then
    let s1 := (s.addStake p.addr amt).addReplenished p.addr amt
    if c.u12 then s1.addLocked p.addr amt else s1
  else
    let sp := splitReward c amt p.newbie
    (s.addBal p.dest sp.1).addStake p.addr sp.2

def creditAll (c : RCfg) : State → List Payee → List Nat → State
  | s, p :: ps, a :: as => creditAll c (credit c s p a) ps as
  | s, _, _ => s

def payCategory (c : RCfg) (s : State) (pool pct : Nat) (cat : CatIn) : State :=
  creditAll c s cat.payees (catPayouts pool pct cat)

/-- `addFoundationPayouts` / `addZeroWalletFund`: `ToInt(pool·pct)` -/
def flatPayout (pool pct : Nat) : Nat := pool * pct / 100

/-- the weights of one validation result, per category -/
structure EpochRewardsIn where
  staking : CatIn := {}
  candidates : CatIn := {}
  flipBasic : CatIn := {}
  flipExtra : CatIn := {}
  invitations : CatIn := {}
  reports : CatIn := {}
  god : Nat := 0
  deriving Repr, Inhabited

/-- epoch reward pool (`rewards.go:22-24`) -/
def epochPool (c : RCfg) (epochLen : Nat) : Nat := c.fullReward * epochLen

/-- `rewardValidIdentities` (`rewards.go:19`) -/
def rewardValidIdentities (c : RCfg) (s : State) (epochLen : Nat) (r : EpochRewardsIn) : State :=
  let pool := epochPool c epochLen
  let s := payCategory c s pool c.pStaking r.staking
  let s := payCategory c s pool c.pCandidate r.candidates
  let s := payCategory c s pool c.flipBasic r.flipBasic
  let s := payCategory c s pool c.flipExtra r.flipExtra
  let s := payCategory c s pool c.pReports r.reports
  let s := payCategory c s pool c.pInvitation r.invitations
  let s := s.addBal r.god (flatPayout pool c.pFoundation)
  s.addBal 0 (flatPayout pool c.pZeroWallet)

/-! ### the other funds steps of a validation-finishing block -/

/-- deletion of a killed identity by `Precommit` (`statedb.go:1356`, `identityUpdateHook blockchain.go:3131`):
stake and its parts are gone -/
def burnIdentity (s : State) (a : Nat) : State :=
  let f := s.idf a
  ((s.addStake a (-f.stake)).addLocked a (-f.locked)).addReplenished a (-f.replenished)

/-- funds effect of the ceremony's `applyOnState` for one identity (`ceremony.go:960-971`, `:997-1007`) -/
inductive CerOp
  | killSave (addr : Nat) (share : Nat)        -- new state Killed: part of the free stake is returned, the rest is burnt
  | verifiedTransfer (addr dest : Nat)          -- Newbie → Verified: 75 % of the earned stake goes to the balance
  deriving Repr, Inhabited

/-- `(stakeToSave, stakeToBurn)` of `ceremony.go:961-968` -/
def killSaveParts (f : IFunds) (share : Nat) : Int × Int :=
  let available := f.stake - f.locked
  let toBurn := available * share / 100 + f.locked
  (f.stake - toBurn, toBurn)

/-- `addToBalance` of `ceremony.go:998-999` -/
def verifiedPart (f : IFunds) : Int := toInt ((f.stake - f.replenished) * 75) 100

/-- `killSave`: the code moves `stakeToSave` to the balance and leaves `stakeToBurn` in the identity, whose state is now
Killed, until `Precommit` of the same block deletes it; nothing in between reads or lowers the stake of a Killed identity
(the reward steps only add), so the model burns the rest at once — the states agree at the block boundary. -/
def applyCerOp (s : State) : CerOp → State
  | .killSave a share => burnIdentity (s.addBal a (killSaveParts (s.idf a) share).1) a
  | .verifiedTransfer a dest =>
    let x := verifiedPart (s.idf a)
    (s.addBal dest x).addStake a (-x)

/-- `SubLockedStake(addr, LockedStake())` (`blockchain.go:853`) -/
def unlockStake (s : State) (a : Nat) : State := s.addLocked a (-(s.idf a).locked)

/-- `clearDustAccounts` for one account (`blockchain.go:1119-1122`) -/
def clearDust (thr : Int) (s : State) (a : Nat) : State :=
  if s.balance a < thr then s.addBal a (-(s.balance a)) else s

structure EpochEv where
  failed : Bool := false
  cer : List CerOp := []
  unlock : List Nat := []
  epochLen : Nat := 0
  rewards : EpochRewardsIn := {}
  dustThr : Int := 0
  dust : List Nat := []
  deriving Repr, Inhabited

/-- funds part of `applyNewEpoch` (`blockchain.go:699`): ceremony results, unlocking, rewards (not after a failed
validation), dust -/
def applyNewEpoch (c : RCfg) (s : State) (e : EpochEv) : State :=
  let s := if e.failed then s else e.cer.foldl applyCerOp s
  let s := e.unlock.foldl unlockStake s
  let s := if e.failed then s else rewardValidIdentities c s e.epochLen e.rewards
  e.dust.foldl (clearDust e.dustThr) s

/-! ### blocks and chains -/

structure RewardIn where
  blockTs : Int := 0
  members : List Member := []
  proposer : Proposer := default
  deriving Repr, Inhabited

/-- everything of a block besides its transactions -/
structure BlockEv where
  proposed : Bool := true
  epoch : Option EpochEv := none      -- `some` on a block with the `ValidationFinished` flag
  rw : RewardIn := {}
  killed : List Nat := []             -- identities `Precommit` deletes
  deriving Repr, Inhabited

/-- `applyBlockOnState` / `applyEmptyBlockOnState` after the transactions have run with the given fee and tips totals -/
def epochStep (c : RCfg) (s : State) : Option EpochEv → State
  | some e => applyNewEpoch c s e
  | none => s

def applyBlockPost (c : RCfg) (s : State) (totalFee totalTips : Int) (b : BlockEv) : State :=
  let s := epochStep c s b.epoch
  let s := if b.proposed then applyBlockRewards c s totalFee totalTips b.rw.blockTs b.rw.members b.rw.proposer else s
  b.killed.foldl burnIdentity s

/-- the issuance bound of a block by its kind -/
def epochBound (c : RCfg) : Option EpochEv → Nat
  | some e => if e.failed then 0 else epochPool c e.epochLen
  | none => 0

def blockBound (c : RCfg) (b : BlockEv) : Nat := (if b.proposed then c.fullReward else 0) + epochBound c b.epoch

/-! ### the check the correspondence driver runs on the real ledger sums of a block -/

/-- `pool · (4096+8) · 2⁻²³ + 6`: what `float32` accumulation of the category totals can add on the code as found
(at most 4096 additions, relative error `2⁻²⁴` each, doubled for second-order terms and decimal conversions) -/
def epochSlack (pool : Nat) : Nat := pool * 4104 / 8388608 + 6

inductive BoundVerdict
  | ok (growth : Int)
  | negative
  | txsIncrease
  | exceeds (bound : Int)
  deriving DecidableEq, Repr

/-- `before`: total before the block, `afterTxs`: after its transactions alone, `after`: after the block;
`neg`: number of negative components; `epochLen`: `some n` on a validation-finishing block -/
def checkBlockBound (c : RCfg) (proposed : Bool) (epochLen : Option Nat) (before afterTxs after : Int) (neg : Nat)
    (totalFee totalTips : Int) : BoundVerdict :=
  if neg ≠ 0 then .negative
  else if ¬ (afterTxs + totalFee + totalTips ≤ before) then .txsIncrease
  else
    -- as found, the epoch distribution may exceed the pool by float32 rounding of the category totals
    -- (`Props/C04.lean: chain_bound_asFound`); the slack is the one the Go oracle uses to classify the open finding
    let pool : Int := match epochLen with | some n => epochPool c n + epochSlack (epochPool c n) | none => 0
    let rewardBound : Int := if proposed then (c.fullReward : Int) + (splitFee c totalFee).2 + totalTips else 0
    if after - afterTxs ≤ rewardBound + pool then .ok (after - before)
    else .exceeds (rewardBound + pool)

end IdenaModel.Rewards
