/-
M-RpcGate: the JSON-RPC request path of `rpc/json.go` + `rpc/server.go` from the decoded message down to
the call of a service method, with the api-key gate of `readRequest` (server.go:393) in the middle.

  message text ──(encoding/json)──▶ `Elem` (abstract JSON members)            [abstraction made by the harness]
  `decode`        json.go:40-46  struct jsonRequest filled by encoding/json   (key: case-insensitive member
                                 match, a later string overwrites, `null` is a no-op, any other type fails the
                                 whole message)
  `parseRequest`  json.go:173    single request  → `RpcReq` or a message-level error
  `parseBatch`    json.go:221    batch           → `List RpcReq` or a message-level error
  `resolve`       server.go:380  `readRequest` loop body: parse-error element, **key gate**, unsubscribe,
                                 service lookup, subscription lookup, callback lookup
  `handle`        server.go:256  executes one resolved request (unsubscribe / subscribe / call)
  `serve`         server.go:126  `serveRequest` + `exec` / `execBatch` for one message

Strings are byte lists (`List Nat`); the service registry (which namespaces/methods exist, their arity,
whether they are subscriptions) is a parameter `Cfg.services`, so every theorem holds for any registry.
Method bodies are not modelled: an invoked method is an entry of the invocation log.
Core Lean only.
-/
namespace IdenaModel.RpcGate

abbrev Str := List Nat

/-- `"_subscribe"` (json.go:35) -/
def sufSubscribe : Str := [95, 115, 117, 98, 115, 99, 114, 105, 98, 101]
/-- `"_unsubscribe"` (json.go:36) -/
def sufUnsubscribe : Str := [95, 117, 110, 115, 117, 98, 115, 99, 114, 105, 98, 101]
/-- `'_'`, serviceMethodSeparator (json.go:34) -/
def sepByte : Nat := 95

/-- strings.HasSuffix -/
def hasSuffix (s suf : Str) : Bool :=
  decide (suf.length ≤ s.length) && (s.drop (s.length - suf.length) == suf)

/-- strings.TrimSuffix -/
def trimSuffix (s suf : Str) : Str :=
  if hasSuffix s suf then s.take (s.length - suf.length) else s

def splitAux (sep : Nat) : Str → Str → List Str
  | [], cur => [cur.reverse]
  | c :: t, cur => if c = sep then cur.reverse :: splitAux sep t [] else splitAux sep t (c :: cur)

/-- strings.Split with a one-byte separator (`Split("", "_") = [""]`) -/
def split (sep : Nat) (s : Str) : List Str := splitAux sep s []

/-! ### abstract JSON request element -/

/-- the JSON value of one member whose name matches `key` -/
inductive KeyVal where
  | null
  | str (s : Str)
  | nonString            -- number, bool, array, object
  deriving DecidableEq, Repr

/-- one positional argument inside `params` -/
inductive Arg where
  | str (s : Str)
  | null
  | other                -- number, bool, array, object
  deriving DecidableEq, Repr

inductive Params where
  | absent               -- no `params` member: `len(in.Payload) == 0`
  | null                 -- `"params": null`  (RawMessage `null`, length 4)
  | nonArray             -- object / number / string / bool
  | arr (as : List Arg)
  deriving DecidableEq, Repr

/-- classification of the `id` member by `checkReqId` (json.go:156) -/
inductive IdV where
  | absent               -- "missing request id"
  | ok                   -- number, string or null
  | bad                  -- object, array, bool: "invalid request id"
  deriving DecidableEq, Repr

inductive Shape where
  | obj
  | null                 -- the element is the literal `null`: the struct stays zero
  | other                -- number / string / bool / (inside a batch) array: type error
  deriving DecidableEq, Repr

structure Elem where
  shape : Shape := .obj
  /-- values of the members matching `key` (case-insensitively), in document order -/
  keys : List KeyVal := []
  id : IdV := .ok
  /-- `none`: no `method` member (or `null`): the field stays `""` -/
  method : Option Str := none
  /-- some member other than `key` has a JSON type its struct field cannot take (`"jsonrpc": 2`, `"method": []`) -/
  tyErr : Bool := false
  params : Params := .absent
  deriving DecidableEq, Repr

/-- encoding/json on `Key string`: a string member overwrites, `null` leaves the field as it is;
any other type is recorded as an UnmarshalTypeError (decoding goes on, the error is returned at the end). -/
def foldKey : Str → List KeyVal → Option Str
  | cur, [] => some cur
  | _, .str s :: t => foldKey s t
  | cur, .null :: t => foldKey cur t
  | _, .nonString :: _ => none

/-- the key an element carries as far as the server is concerned (`none`: a key member of a non-string type) -/
def effKey (ks : List KeyVal) : Option Str := foldKey [] ks

/-- `jsonRequest` (json.go:40) after `json.Unmarshal` -/
structure JsonReq where
  key : Str
  method : Str
  id : IdV
  payload : Params
  deriving DecidableEq, Repr

/-- `json.Unmarshal(msg, &in)` for one element; `none` = Unmarshal returns an error -/
def decode (e : Elem) : Option JsonReq :=
  match e.shape with
  | .other => none
  | .null => some { key := [], method := [], id := .absent, payload := .absent }
  | .obj =>
    if e.tyErr then none else
    match effKey e.keys with
    | none => none
    | some k => some { key := k, method := e.method.getD [], id := e.id, payload := e.params }

/-- `rpcRequest` (types.go:81) -/
structure RpcReq where
  key : Str
  service : Str := []
  method : Str := []
  isPubSub : Bool := false
  /-- `absent` here means the Go interface value `params` is nil -/
  params : Params := .absent
  /-- error code of an invalid batch element (`rpcRequest.err`) -/
  err : Option Int := none
  deriving DecidableEq, Repr

/-- `json.Unmarshal(in.Payload, &subscribeMethod)` with `subscribeMethod [1]string` (json.go:188, :240):
`null` and a short array leave `""`, surplus elements are skipped unchecked. -/
def firstString : Params → Option Str
  | .absent => none                      -- not reached: callers test `len(Payload) > 0` first
  | .null => some []
  | .nonArray => none
  | .arr [] => some []
  | .arr (.str s :: _) => some s
  | .arr (.null :: _) => some []
  | .arr (.other :: _) => none

def codeInvalidRequest : Int := -32600
def codeMethodNotFound : Int := -32601
def codeInvalidParams : Int := -32602
def codeInvalidMessage : Int := -32700
def codeCallback : Int := -32000
def codeInvalidKey : Int := -32800

/-- everything after Unmarshal and `checkReqId` that is common to json.go:183-215 (single) and
json.go:236-268 (batch element); `single` selects the treatment of a method name that does not split in two:
message-level error (json.go:208) vs element-level `err` (json.go:267). -/
def classify (single : Bool) (j : JsonReq) : Except Int RpcReq :=
  if hasSuffix j.method sufSubscribe then                                   -- json.go:184 / :236
    if j.payload = .absent then .error codeInvalidRequest                   -- json.go:198 / :251
    else match firstString j.payload with
      | none => .error codeInvalidRequest                                   -- json.go:191 / :243
      | some m => .ok { key := j.key, isPubSub := true, service := trimSuffix j.method sufSubscribe,
                        method := m, params := j.payload }
  else if hasSuffix j.method sufUnsubscribe then                            -- json.go:201 / :254
    .ok { key := j.key, isPubSub := true, method := j.method, params := j.payload }
  else match split sepByte j.method with
    | [svc, m] => .ok { key := j.key, service := svc, method := m, params := j.payload }
    | _ =>
      if single then .error codeMethodNotFound                              -- json.go:208
      else .ok { key := j.key, params := j.payload, err := some codeMethodNotFound }  -- json.go:267

/-- `parseRequest` (json.go:173) -/
def parseRequest (e : Elem) : Except Int RpcReq :=
  match decode e with
  | none => .error codeInvalidMessage                                       -- json.go:176
  | some j =>
    if j.id ≠ .ok then .error codeInvalidMessage                            -- json.go:180
    else classify true j

/-- the loop of `parseBatchRequest` (json.go:228-269): the first failing element fails the message -/
def parseBatchLoop : List JsonReq → Except Int (List RpcReq)
  | [] => .ok []
  | j :: t =>
    if j.id ≠ .ok then .error codeInvalidMessage                            -- json.go:230
    else match classify false j with
      | .error c => .error c
      | .ok r => match parseBatchLoop t with
        | .error c => .error c
        | .ok rs => .ok (r :: rs)

/-- `json.Unmarshal(msg, &[]jsonRequest)`: a type error anywhere fails the whole array -/
def decodeAll : List Elem → Option (List JsonReq)
  | [] => some []
  | e :: t => match decode e, decodeAll t with
    | some j, some js => some (j :: js)
    | _, _ => none

/-- `parseBatchRequest` (json.go:221) -/
def parseBatch (es : List Elem) : Except Int (List RpcReq) :=
  match decodeAll es with
  | none => .error codeInvalidMessage                                       -- json.go:224
  | some js => parseBatchLoop js

/-! ### registry and server configuration -/

structure Callback where
  /-- number of (string) arguments after receiver and optional context: `len(callb.argTypes)` -/
  nargs : Nat
  /-- the method body returns a non-nil error (answered with -32000 after it ran) -/
  retErr : Bool := false
  /-- the harness can see the invocation (false for the built-in `rpc_modules`) -/
  logged : Bool := true
  deriving DecidableEq, Repr

structure Service where
  name : Str
  callbacks : List (Str × Callback)
  subscriptions : List (Str × Callback)
  deriving DecidableEq, Repr

structure Cfg where
  apiKey : Str
  services : List Service
  /-- the codec was served with `OptionSubscriptions` (WebSocket, IPC; not HTTP): server.go:148 -/
  notifier : Bool
  deriving Repr

def findService : List Service → Str → Option Service
  | [], _ => none
  | s :: t, n => if s.name = n then some s else findService t n

def findCb : List (Str × Callback) → Str → Option Callback
  | [], _ => none
  | (n, c) :: t, m => if n = m then some c else findCb t m

/-- `parsePositionalArguments` (json.go:287) for `n` parameters of type `string`:
exactly `n` elements, each a string or `null` (decoded as `""`); `none` = invalidParamsError -/
def parseArgs (n : Nat) : Params → Option (List Str)
  | .arr as =>
    if as.length ≠ n then none
    else as.foldr (fun a acc => match a, acc with
      | .str s, some l => some (s :: l)
      | .null, some l => some ([] :: l)
      | _, _ => none) (some [])
  | _ => none

/-- what a `serverRequest` (types.go:57) can be after `readRequest` -/
inductive SrvReq where
  | err (code : Int)
  | unsub (args : List Str)
  | sub (svc m : Str) (cb : Callback) (args : List Str)
  | call (svc m : Str) (cb : Callback) (args : List Str)
  deriving DecidableEq, Repr

/-- one iteration of the loop in `readRequest` (server.go:380-446), clause by clause -/
def resolve (cfg : Cfg) (r : RpcReq) : SrvReq :=
  match r.err with
  | some c => .err c                                                        -- server.go:388 (before the gate)
  | none =>
  if cfg.apiKey ≠ [] ∧ r.key ≠ cfg.apiKey then .err codeInvalidKey          -- server.go:393  THE GATE
  else if r.isPubSub && hasSuffix r.method sufUnsubscribe then              -- server.go:398
    match parseArgs 1 r.params with
    | some a => .unsub a
    | none => .err codeInvalidParams
  else match findService cfg.services r.service with
    | none => .err codeMethodNotFound                                       -- server.go:409
    | some svc =>
      if r.isPubSub then                                                    -- server.go:414
        match findCb svc.subscriptions r.method with
        | none => .err codeMethodNotFound                                   -- server.go:427
        | some cb =>
          if r.params ≠ .absent ∧ cb.nargs > 0 then                         -- server.go:417
            match parseArgs (1 + cb.nargs) r.params with
            | some a => .sub svc.name r.method cb (a.drop 1)
            | none => .err codeInvalidParams
          else .sub svc.name r.method cb []
      else match findCb svc.callbacks r.method with
        | none => .err codeMethodNotFound                                   -- server.go:444
        | some cb =>
          if r.params ≠ .absent ∧ cb.nargs > 0 then                         -- server.go:434
            match parseArgs cb.nargs r.params with
            | some a => .call svc.name r.method cb a
            | none => .err codeInvalidParams
          else .call svc.name r.method cb []

/-! ### execution -/

/-- one entry of the invocation log: a service method body ran -/
structure Inv where
  svc : Str
  m : Str
  args : List Str
  deriving DecidableEq, Repr

inductive Outcome where
  /-- a regular method ran (`cbErr`: it returned an error, answered -32000) -/
  | served (i : Inv) (logged cbErr : Bool)
  /-- a subscription method ran and created subscription number `n` -/
  | subscribed (i : Inv) (n : Nat)
  /-- a subscription method ran but the connection has no notifier; it returned an error (-32000) -/
  | subFailed (i : Inv)
  /-- subscription number `n` was cancelled -/
  | unsubscribed (n : Nat)
  | err (code : Int)
  deriving DecidableEq, Repr

def Outcome.invocations : Outcome → Nat
  | .served .. => 1
  | .subscribed .. => 1
  | .subFailed .. => 1
  | _ => 0

def Outcome.subsDelta : Outcome → Int
  | .subscribed .. => 1
  | .unsubscribed .. => -1
  | _ => 0

/-- the JSON-RPC error code of the response, `none` for a success response -/
def Outcome.code : Outcome → Option Int
  | .served _ _ cbErr => if cbErr then some codeCallback else none
  | .subscribed .. => none
  | .subFailed .. => some codeCallback
  | .unsubscribed .. => none
  | .err c => some c

def Outcome.isError (o : Outcome) : Bool := o.code.isSome

/-- connection state: which subscriptions (numbered in creation order) are active on this connection,
which were created by the message being executed (activated after the response is written,
server.go:340 / :367), and the number of the next subscription -/
structure St where
  active : List Nat := []
  pending : List Nat := []
  next : Nat := 0
  deriving DecidableEq, Repr

/-- the harness writes `@<n>` for "the id the server issued for subscription number n";
`subRef` reads it back (decimal digits after `@`) -/
def digitsVal : List Nat → Nat → Option Nat
  | [], acc => some acc
  | d :: t, acc => if 48 ≤ d ∧ d ≤ 57 then digitsVal t (acc * 10 + (d - 48)) else none

def subRef : Str → Option Nat
  | 64 :: d :: t => digitsVal (d :: t) 0
  | _ => none

/-- `handle` (server.go:256) on a resolved request -/
def handle (cfg : Cfg) (st : St) : SrvReq → St × Outcome
  | .err c => (st, .err c)                                                  -- server.go:257
  | .unsub args =>                                                          -- server.go:261
    match args with
    | a :: _ =>
      if ¬ cfg.notifier then (st, .err codeCallback)                        -- server.go:264 (http)
      else match subRef a with
        | some n =>
          if n ∈ st.active then ({ st with active := st.active.erase n }, .unsubscribed n)
          else (st, .err codeCallback)                                      -- server.go:269 not found
        | none => (st, .err codeCallback)
    | [] => (st, .err codeInvalidParams)                                    -- server.go:275
  | .sub svc m _ args =>                                                    -- server.go:278
    if cfg.notifier then
      ({ st with pending := st.pending ++ [st.next], next := st.next + 1 },
        .subscribed ⟨svc, m, args⟩ st.next)
    else (st, .subFailed ⟨svc, m, args⟩)
  | .call svc m cb args =>
    if args.length ≠ cb.nargs then (st, .err codeInvalidParams)             -- server.go:294
    else (st, .served ⟨svc, m, args⟩ cb.logged cb.retErr)                   -- server.go:310

/-- the callbacks run after the response is written: pending subscriptions become active -/
def activate (st : St) : St := { st with active := st.active ++ st.pending, pending := [] }

/-- `execBatch` loop (server.go:350): resolved requests handled in order -/
def handleAll (cfg : Cfg) : St → List SrvReq → St × List Outcome
  | st, [] => (st, [])
  | st, q :: t =>
    let r := handle cfg st q
    let rest := handleAll cfg r.1 t
    (rest.1, r.2 :: rest.2)

inductive Msg where
  | garbage                       -- not a JSON value: `c.decode` fails (json.go:145)
  | single (e : Elem)
  | batch (es : List Elem)
  deriving DecidableEq, Repr

inductive Reply where
  /-- `ReadRequestHeaders` failed: one error response without id; a persistent connection is closed afterwards -/
  | msgErr (code : Int)
  | one (o : Outcome)
  | many (os : List Outcome)
  deriving DecidableEq, Repr

/-- `readRequest` + `exec`/`execBatch` for one incoming message (server.go:160-208) -/
def serve (cfg : Cfg) (st : St) : Msg → St × Reply
  | .garbage => (st, .msgErr codeInvalidRequest)                            -- json.go:146
  | .single e =>
    match parseRequest e with
    | .error c => (st, .msgErr c)
    | .ok r =>
      let x := handle cfg st (resolve cfg r)
      (activate x.1, .one x.2)
  | .batch es =>
    match parseBatch es with
    | .error c => (st, .msgErr c)
    | .ok rs =>
      let x := handleAll cfg st (rs.map (resolve cfg))
      (activate x.1, .many x.2)

/-- the outcomes of a reply, one per element that got its own response -/
def Reply.outcomes : Reply → List Outcome
  | .msgErr _ => []
  | .one o => [o]
  | .many os => os

/-- `serveRequest` returns after a read error (server.go:163-171) and `ServeCodec` closes the codec:
on a persistent connection a message-level error ends the connection (whatever the key). -/
def connCloses (cfg : Cfg) : Reply → Bool
  | .msgErr _ => cfg.notifier
  | _ => false

/-! ### (G) the statement list of the `readRequest` loop body, regenerated from /repo on every run -/

/-- classification of one top-level statement of the loop body by the go/ast extractor in the harness -/
inductive Stmt where
  | decl                 -- `var …` without a call
  | parseErr             -- `if r.err != nil { requests[i] = &serverRequest{id, err: r.err}; continue }`
  | gate                 -- `if s.apiKey != "" && r.key != s.apiKey { requests[i] = &serverRequest{id, err: &invalidApiKeyError{}}; continue }`
  | branch               -- any other `if`: may resolve a callback / continue
  | tail                 -- final assignment of a methodNotFoundError
  | unclassified
  deriving DecidableEq, Repr

/-- the key test precedes every branch that can resolve a callback: after declarations and
parse-error short-cuts the first statement is the gate, and nothing is unclassified. -/
def gateFirst : List Stmt → Bool
  | [] => false
  | .decl :: t => gateFirst t
  | .parseErr :: t => gateFirst t
  | .gate :: t => t.all (fun s => s != .unclassified)
  | _ => false

/-- which statement of the loop body decides the fate of a request that has no parse error and does not
carry the key, for arbitrary guards of the other branches: the index of the first statement that fires.
`decl` never fires, `parseErr` fires only on `r.err ≠ nil`, `gate` fires on such a request,
`branch i` fires when its (arbitrary) guard does, `tail` always. -/
def firstFiring (guard : Nat → Bool) : Nat → List Stmt → Option (Nat × Stmt)
  | _, [] => none
  | i, .decl :: t => firstFiring guard (i + 1) t
  | i, .parseErr :: t => firstFiring guard (i + 1) t
  | i, .gate :: _ => some (i, .gate)
  | i, .branch :: t => if guard i then some (i, .branch) else firstFiring guard (i + 1) t
  | i, .tail :: _ => some (i, .tail)
  | i, .unclassified :: t => if guard i then some (i, .unclassified) else firstFiring guard (i + 1) t

/-- (G) call sites: `(callee, enclosing function)` pairs found in package rpc (non-test files) for the
functions on the path from the codec to a service method -/
abbrev CallSite := String × String

/-- the only allowed edges: methods are invoked (`Func.Call`) only from `handle`/`createSubscription`,
which are reached only through `exec`/`execBatch`, which `serveRequest` feeds only from `readRequest` -/
def allowedEdges : List CallSite :=
  [("Func.Call", "handle"), ("Func.Call", "createSubscription"),
   ("createSubscription", "handle"), ("unsubscribe", "handle"),
   ("handle", "exec"), ("handle", "execBatch"),
   ("exec", "serveRequest"), ("execBatch", "serveRequest"),
   ("readRequest", "serveRequest"),
   ("serveRequest", "ServeCodec"), ("serveRequest", "ServeSingleRequest")]

/-- every extracted call site is an allowed edge, and the edges that make the path exist -/
def callGraphOk (sites : List CallSite) : Bool :=
  sites.all (fun s => allowedEdges.contains s) &&
  [("Func.Call", "handle"), ("handle", "exec"), ("handle", "execBatch"),
   ("readRequest", "serveRequest")].all (fun s => sites.contains s)

/-! ### how the node gets its key: `config.SetApiKey` (config/config.go:137), called by `node.NewNode` (node.go:170) -/

/-- ASCII white space as cut by `strings.TrimSpace` (the harness generates no other kind) -/
def isSpace (b : Nat) : Bool := b == 9 || b == 10 || b == 11 || b == 12 || b == 13 || b == 32

def trimSpace (s : Str) : Str := ((s.dropWhile isSpace).reverse.dropWhile isSpace).reverse

/-- `flag`: the configured `RPC.APIKey` (command line / config file), `file`: content of `<datadir>/api.key`
(`none`: unreadable), `rnd`: the freshly generated random key.  Result: the key the node runs with and
whether `api.key` is (re)written with it. -/
def setApiKey (flag : Str) (file : Option Str) (rnd : Str) : Str × Bool :=
  if flag ≠ [] then (flag, true)                                            -- config.go:139, :152
  else
    let k := trimSpace (file.getD [])                                       -- config.go:141-142
    if k = [] then (rnd, true)                                              -- config.go:143-145
    else (k, false)                                                         -- config.go:147

/-- what the start-up finds at `<datadir>/api.key` -/
structure KeyFs where
  /-- readable content (`none`: missing, a directory, a dangling link, unreadable) -/
  file : Option Str
  /-- `OpenFile(O_CREATE|O_WRONLY|O_TRUNC)` + `WriteString` succeed (config.go:153-158) -/
  writable : Bool
  deriving DecidableEq, Repr

/-- **start-up clause.**  The key every RPC server of the node is created with; `none` = `SetApiKey` returns an
error (the key has to be written and cannot be), `NewNodeWithInjections` returns "cannot set API key"
(node.go:158-161) and the node does not start.  Never `some []`: see `effectiveKey_never_empty`. -/
def effectiveKey (flag : Str) (fs : KeyFs) (rnd : Str) : Option Str :=
  let r := setApiKey flag fs.file rnd
  if r.2 && !fs.writable then none else some r.1

/-- **as found before the repair** (snapshot 8023026d, node.go:152 vs :170): `NewNodeWithInjections` opened the
*initial* endpoint (`startInitialRPC`, namespace `bcn` with `syncing` only, replaced by the full one in
`StartWithHeight`) with `config.RPC.APIKey` as it was on entry, i.e. before `SetApiKey` had looked at `api.key`
or generated a key.  Kept for the witness theorem `initial_endpoint_ungated_as_found` (finding F34). -/
def initialEndpointKeyAsFound (flag : Str) (_file : Option Str) : Str := flag

/-- **repaired ordering** (node.go:152-165): `KeyStoreDataDir` and `SetApiKey` run first, then `startInitialRPC`:
the initial endpoint is created with the resolved key, the same one the full endpoint gets. -/
def initialEndpointKey (flag : Str) (file : Option Str) (rnd : Str) : Str := (setApiKey flag file rnd).1

/-- (G) constructor facts: every function that builds a `Node` value calls `SetApiKey` before, the full RPC
endpoint (`startRPC`/`startHTTP`) is only opened from methods of a constructed `Node`, and the constructor
opens the initial endpoint after the key resolution (`initialOrder = "after"`). -/
def ctorOk (ctors : List (String × String)) (starts : List String) (initialOrder : String) : Bool :=
  !ctors.isEmpty && ctors.all (fun c => c.2 == "yes") && !starts.isEmpty && starts.all (fun s => s == "recv") &&
  initialOrder == "after"

/-- (G) key flow: `newserver` facts `(enclosing function, argument kind, number of call sites of that function)`
for every non-test call of `rpc.NewServer`, and the `keypass` classes of the arguments on the way from the
config field to it.  A server is created either with a value that is traced back to `….RPC.APIKey`, or
(the key-less WebSocket/IPC endpoint constructors) in a function that nobody calls. -/
def keyFlowOk (ns : List (String × String × Nat)) (kp : List String) : Bool :=
  !ns.isEmpty &&
  ns.all (fun f => f.2.1 == "param" || f.2.1 == "cfgkey" || (f.2.1 == "empty" && f.2.2 == 0)) &&
  ns.any (fun f => f.2.1 == "param" || f.2.1 == "cfgkey") &&
  kp.all (fun k => k == "param" || k == "cfgkey") &&
  (kp.contains "cfgkey" || ns.any (fun f => f.2.1 == "cfgkey"))

end IdenaModel.RpcGate
