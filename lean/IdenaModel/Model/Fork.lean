/-
M-Fork (C08): fork adoption — `ForkResolver.processBlocks / sortBlocks / checkForkSize / applyFork`
(consensus/fork_resolver.go), `Blockchain.ValidateSubChain / ResetTo / AddBlock / insertBlock / GetTx /
WriteCertificate` (blockchain/blockchain.go), `AppState.ForCheckWithOverwrite / ResetTo`
(core/appstate/appstate.go), version retention of `StateDB.CommitTree` (core/state/statedb.go).  Core Lean only.

What is abstract (parameters, `Env`): everything `validateBlock` decides besides the parent link (header, VRF seed,
proposer eligibility, transactions, flags, roots, cids) together with the commit of the check state
(`validBody : prev header → state → block → Option state`), and the verdict of `ValidateBlockCert` on a non-empty
certificate (`certOk`, owned by C07).  What is concrete: the repository maps (canonical hash by height, header by
hash, transaction index, certificates), the saved state versions with their retention, the head, and the exact
order of reads / writes / deletes of the code.  Maps are total functions `Nat → Option _` (hashes and transaction
ids are numbers; distinct blocks having distinct hashes is a hypothesis of the theorems, never of the model).

`Rules` selects between the code as it is now (`fixed`) and the three rules as they were found
(`asFound`: F3 tip certificate tested for nil only, F15 unguarded `checkForkSize` loop, nil certificate written
by `applyFork`); the as-found variants are kept only for the flagged witness theorems.
-/
namespace IdenaModel.Fork

structure Cert where
  sigs : List Nat
  tag : Nat := 0
  deriving Repr, DecidableEq

/-- `(*BlockCert).Empty()` (types.go:961): nil or no signatures -/
def certEmpty : Option Cert → Bool
  | none => true
  | some c => c.sigs.isEmpty

structure Block where
  hash : Nat
  height : Nat
  parent : Nat
  empty : Bool      -- `IsEmpty()`: empty block header
  idUpdate : Bool   -- header flag `IdentityUpdate`
  seed : Nat        -- block seed (compared bytewise by checkForkSize; here its rank)
  txs : List Nat
  deriving Repr, DecidableEq

structure Bundle where
  block : Block
  cert : Option Cert
  deriving Repr, DecidableEq

structure Env (σ : Type) where
  validBody : Block → σ → Block → Option σ
  certOk : Block → σ → Block → Cert → Bool

inductive Verdict where
  | ok | err | panic
  deriving Repr, DecidableEq

structure Rules where
  tipNilOnly : Bool      -- F3 as found: `blocks[len-1].Cert == nil`
  cfsUnguarded : Bool    -- F15 as found: no contiguity / unknown-height test in the loop
  writeEveryCert : Bool  -- as found: `WriteCertificate(hash, bundle.Cert)` for every fork block
  deriving Repr, DecidableEq

def fixed : Rules := ⟨false, false, false⟩
def asFound : Rules := ⟨true, true, true⟩

def upd {α : Type} (m : Nat → Option α) (k : Nat) (v : Option α) : Nat → Option α :=
  fun x => if x = k then v else m x

structure Node (σ : Type) where
  head : Block                      -- `chain.Head`
  cur : σ                           -- loaded application state (state + identity state + validators view)
  canon : Nat → Option Nat          -- repo: canonical hash by height
  hdr : Nat → Option Block          -- repo header by hash (+ body from the ipfs store)
  txIdx : Nat → Option (Nat × Nat)  -- repo transaction index: tx ↦ (block hash, position)
  certs : Nat → Option Cert         -- repo certificates by block hash
  vers : Nat → Option σ             -- saved tree versions by height

/-- `MaxSavedStatesCount` (statedb.go:39) -/
def keep : Nat := 100

/-- `validateBlock` (blockchain.go:2304): parent link (`validateBlockParentHash` inside `ValidateHeader`; for an
empty block the comparison with the regenerated empty block, whose height / parent are those of `prev`), then
everything else, then the commit of the check state. -/
def validateBlock {σ : Type} (E : Env σ) (prev : Block) (s : σ) (b : Block) : Option σ :=
  if prev.height + 1 = b.height ∧ prev.hash = b.parent then E.validBody prev s b else none

/-- `WriteTxIndex` (blockchain.go:2242) -/
def writeTxIdx (idx : Nat → Option (Nat × Nat)) (bh : Nat) : List Nat → Nat → (Nat → Option (Nat × Nat))
  | [], _ => idx
  | t :: ts, i => writeTxIdx (upd idx t (some (bh, i))) bh ts (i + 1)

/-- `CommitTree` (statedb.go:1306): save the version, keep the last `keep` ones -/
def saveVersion {σ : Type} (vers : Nat → Option σ) (h : Nat) (s : σ) : Nat → Option σ :=
  fun x => if x = h then some s else if x + keep ≤ h then none else vers x

/-- `AddBlock` (blockchain.go:428) + `insertBlock` (:2218): validate on the head state, commit the trees at the
block height, write header / head / canonical hash / tx index. -/
def addBlock {σ : Type} (E : Env σ) (n : Node σ) (b : Block) : Option (Node σ) :=
  match validateBlock E n.head n.cur b with
  | none => none
  | some s' =>
    some { head := b, cur := s', canon := upd n.canon b.height (some b.hash), hdr := upd n.hdr b.hash (some b),
           txIdx := writeTxIdx n.txIdx b.hash b.txs 0, certs := n.certs, vers := saveVersion n.vers b.height s' }

inductive TxLookup where
  | notFound
  | found (blockHash idx : Nat)
  | panic
  deriving Repr, DecidableEq

/-- `GetTx` (blockchain.go:2613): index → header → body → position (`len < idx` is the code's bound test, so
`idx = len` would index out of range). -/
def getTx {σ : Type} (n : Node σ) (t : Nat) : TxLookup :=
  match n.txIdx t with
  | none => .notFound
  | some (bh, i) =>
    match n.hdr bh with
    | none => .notFound
    | some b =>
      if b.txs.length < i then .notFound
      else match b.txs[i]? with
        | none => .panic
        | some t' => if t' = t then .found bh i else .notFound

/-- `GetBlockByHeight` -/
def ownBlock {σ : Type} (n : Node σ) (h : Nat) : Option Block := (n.canon h).bind n.hdr

/-- the loop of `ResetTo` (blockchain.go:2722): for h = from .. from+count-1: read the canonical hash, collect the
block's transactions, remove header and canonical hash. -/
def dropRange (canon : Nat → Option Nat) (hdr : Nat → Option Block) :
    Nat → Nat → (Nat → Option Nat) × (Nat → Option Block) × List Nat
  | _, 0 => (canon, hdr, [])
  | h, k + 1 =>
    match canon h with
    | none => dropRange canon hdr (h + 1) k
    | some hh =>
      let txs := match hdr hh with
        | some b => b.txs
        | none => []
      let r := dropRange (upd canon h none) (upd hdr hh none) (h + 1) k
      (r.1, r.2.1, txs ++ r.2.2)

/-- walk from a header through parent hashes while the height is above `height` (fuel: heights decrease) -/
def walkBack (hdr : Nat → Option Block) (height : Nat) : Nat → Block → Option Block
  | 0, cur => if cur.height > height then none else some cur
  | k + 1, cur =>
    if cur.height > height then
      match hdr cur.parent with
      | some p => walkBack hdr height k p
      | none => none
    else some cur

/-- `ensureCanonicalHeader` (blockchain.go:2747): the canonical header of the target must exist; when it is missing it
is looked up by walking back from the head and written, else the reset is refused before anything is changed -/
def ensureCanonical {σ : Type} (n : Node σ) (height : Nat) : Option (Node σ) :=
  match ownBlock n height with
  | some _ => some n
  | none =>
    match walkBack n.hdr height (n.head.height + 1) n.head with
    | some cur =>
      if cur.height = height then
        some { n with hdr := upd n.hdr cur.hash (some cur), canon := upd n.canon height (some cur.hash) }
      else none
    | none => none

/-- `Blockchain.ResetTo` (:2763) with `AppState.ResetTo` (appstate.go:213): canonical header of the target first, then
the version is loaded for overwriting (fails when it is not retained — the node is left as it is, the head has not
moved yet; later versions are deleted), then `setHead`, then the loop.  The tx index and the certificates are left as
they are.  `.error n'` = refused, node left as `n'`. -/
def resetTo {σ : Type} (n : Node σ) (height : Nat) : Except (Node σ) (Node σ × List Nat) :=
  match ensureCanonical n height with
  | none => .error n
  | some n1 =>
    match n1.vers height with
    | none => .error n1
    | some s =>
      let head' := match ownBlock n1 height with
        | some b => b
        | none => n1.head
      let r := dropRange n1.canon n1.hdr (height + 1) (n1.head.height - height)
      .ok ({ head := head', cur := s, canon := r.1, hdr := r.2.1, txIdx := n1.txIdx, certs := n1.certs,
             vers := fun x => if height < x then none else n1.vers x }, r.2.2)

/-- `if !b.Cert.Empty() { ValidateBlockCert(prevBlock, header, cert, checkState.ValidatorsCache) }` (:2715): the
validators are those of the state the block is built on (the cache is refreshed by the commit that follows) -/
def certAccepted {σ : Type} (E : Env σ) (prev : Block) (s : σ) (b : Bundle) : Bool :=
  match b.cert with
  | none => true
  | some c => c.sigs.isEmpty || E.certOk prev s b.block c

/-- the loop of `ValidateSubChain` (:2706-2724) on the check state -/
def vscLoop {σ : Type} (E : Env σ) : Block → σ → List Bundle → Bool
  | _, _, [] => true
  | prev, s, b :: rest =>
    match validateBlock E prev s b.block with
    | none => false
    | some s' =>
      if b.block.idUpdate && certEmpty b.cert then false          -- "Block cert is missing"
      else if !(certAccepted E prev s b) then false               -- ValidateBlockCert refused
      else vscLoop E b.block s' rest

/-- the tip rule (:2708) -/
def tipRefused (R : Rules) (c : Option Cert) : Bool :=
  if R.tipNilOnly then c.isNone else certEmpty c

/-- `ValidateSubChain` (:2699): common block first (c5d81c60: refused when unknown), then the check state of the
common height (`ForCheckWithOverwrite`: refused when the version is not retained), the loop, the tip rule. -/
def validateSubChain {σ : Type} (E : Env σ) (R : Rules) (n : Node σ) (start : Nat) (bs : List Bundle) : Verdict :=
  match ownBlock n start with
  | none => .err                       -- "common block of the fork is not found"
  | some prev =>
    match n.vers start with
    | none => .err                     -- ForCheckWithOverwrite: the version does not exist
    | some s =>
      if !(vscLoop E prev s bs) then .err
      else match bs.getLast? with
        | none => .panic               -- blocks[len(blocks)-1] of an empty slice
        | some t => if tipRefused R t.cert then .err else .ok

/-- the counting loop of `checkForkSize` (fork_resolver.go:129): `k` iterations left, own height `i`, fork index `j` -/
def cfsLoop {σ : Type} (R : Rules) (n : Node σ) (fork : List Bundle) : Nat → Nat → Nat → Nat → Nat → Except Verdict (Nat × Nat)
  | 0, _, _, fp, op => .ok (fp, op)
  | k + 1, i, j, fp, op =>
    match fork[j]? with
    | none => .error (if R.cfsUnguarded then .panic else .err)            -- fork[j] out of range
    | some fb =>
      if !R.cfsUnguarded && fb.block.height ≠ i then .error .err          -- "not consecutive"
      else match ownBlock n i with
        | none => .error (if R.cfsUnguarded then .panic else .err)        -- GetBlockByHeight(i) == nil
        | some ob =>
          cfsLoop R n fork k (i + 1) (j + 1) (if fb.block.empty then fp else fp + 1) (if ob.empty then op else op + 1)

/-- `checkForkSize` (fork_resolver.go:113) -/
def checkForkSize {σ : Type} (R : Rules) (n : Node σ) (fork : List Bundle) : Verdict :=
  match fork.head?, fork.getLast? with
  | some first, some last =>
    if last.block.height > n.head.height then .ok
    else match cfsLoop R n fork (last.block.height + 1 - first.block.height) first.block.height 0 0 0 with
      | .error v => v
      | .ok (fp, op) =>
        if fp < op then .err                                -- "fork has less proposed blocks"
        else match ownBlock n first.block.height with
          | none => .panic                                  -- dereferenced unchecked at :147
          | some ob => if first.block.seed > ob.seed then .ok else .err
  | _, _ => .err                                            -- "fork is empty"

/-- `sortBlocks` (:106): stable sort by height -/
def sortBlocks (l : List Bundle) : List Bundle :=
  l.mergeSort (fun a b => a.block.height ≤ b.block.height)

/-- `forkBlocks[0].Block.Height() - 1` on uint64 -/
def commonHeight (f : List Bundle) : Nat :=
  match f.head? with
  | some b => if b.block.height = 0 then 2 ^ 64 - 1 else b.block.height - 1
  | none => 0

/-- `processBlocks` (:73): verdict and the applicable fork it stores -/
def processBlocks {σ : Type} (E : Env σ) (R : Rules) (n : Node σ) (l : List Bundle) : Verdict × Option (Nat × List Bundle) :=
  if l.isEmpty then (.err, none)                            -- "common height is not found"
  else
    match checkForkSize R n (sortBlocks l) with
    | .ok =>
      match validateSubChain E R n (commonHeight (sortBlocks l)) (sortBlocks l) with
      | .ok => (.ok, some (commonHeight (sortBlocks l), sortBlocks l))
      | .err => (.err, none)                                -- "unacceptable fork"
      | .panic => (.panic, none)
    | .err => (.err, none)                                  -- "fork is smaller"
    | .panic => (.panic, none)

/-- certificate write of one adopted / synced block.  Fixed rule (fork_resolver.go:173 after 1b0d82a6, and the sync
path full.go:86): only a non-empty certificate is stored.  As found: every one, and a nil one is dereferenced. -/
def writeCert {σ : Type} (R : Rules) (n : Node σ) (b : Bundle) : Option (Node σ) :=
  if R.writeEveryCert then
    match b.cert with
    | none => none
    | some c => some { n with certs := upd n.certs b.block.hash (some c) }
  else if certEmpty b.cert then some n
  else some { n with certs := upd n.certs b.block.hash b.cert }

/-- the loop of `applyFork` (:169): node reached and verdict -/
def applyBlocks {σ : Type} (E : Env σ) (R : Rules) : Node σ → List Bundle → Node σ × Verdict
  | n, [] => (n, .ok)
  | n, b :: rest =>
    match addBlock E n b.block with
    | none => (n, .err)
    | some n1 =>
      match writeCert R n1 b with
      | none => (n1, .panic)
      | some n2 => applyBlocks E R n2 rest

/-- `applyFork` (:154): node reached, verdict, reverted transactions -/
def applyFork {σ : Type} (E : Env σ) (R : Rules) (n : Node σ) (common : Nat) (fork : List Bundle) : Node σ × Verdict × List Nat :=
  match resetTo n common with
  | .error n1 => (n1, .err, [])
  | .ok (n0, rev) =>
    let r := applyBlocks E R n0 fork
    (r.1, r.2, if r.2 = .ok then rev else [])

/-- a node that follows a chain block by block (sync path: `AddBlock`, then the non-empty certificate) -/
def syncFrom {σ : Type} (E : Env σ) : Node σ → List Bundle → Option (Node σ)
  | n, [] => some n
  | n, b :: rest =>
    match addBlock E n b.block with
    | none => none
    | some n1 =>
      match writeCert fixed n1 b with
      | none => none
      | some n2 => syncFrom E n2 rest

def genesisNode {σ : Type} (g : Block) (s0 : σ) : Node σ :=
  { head := g, cur := s0, canon := upd (fun _ => none) g.height (some g.hash), hdr := upd (fun _ => none) g.hash (some g),
    txIdx := fun _ => none, certs := fun _ => none, vers := upd (fun _ => none) g.height (some s0) }

/-! `ReadBlockForForkedPeer` (blockchain.go:2934): what a node serves to a peer that sent its top block hashes -/

/-- first asked hash the node has a header for: (its height, number of hashes examined); (1, _) when none -/
def findCommon {σ : Type} (n : Node σ) : List Nat → Nat → Nat × Nat
  | [], need => (1, need)
  | y :: rest, need =>
    match n.hdr y with
    | some b => (b.height, need + 1)
    | none => findCommon n rest (need + 1)

/-- canonical blocks with their certificate records from height `h`, at most `k`, stopping at a missing block -/
def serveRange {σ : Type} (n : Node σ) : Nat → Nat → List Bundle
  | _, 0 => []
  | h, k + 1 =>
    match ownBlock n h with
    | none => []
    | some b => ⟨b, n.certs b.hash⟩ :: serveRange n (h + 1) k

/-- the range is extended by up to `StoreCertRange` blocks until one has a certificate record (`cert != nil`);
a missing block empties the answer -/
def serveExtend {σ : Type} (n : Node σ) : Nat → Nat → List Bundle → List Bundle
  | _, 0, acc => acc
  | h, k + 1, acc =>
    match ownBlock n h with
    | none => []
    | some b =>
      if (n.certs b.hash).isSome then acc ++ [⟨b, n.certs b.hash⟩]
      else serveExtend n (h + 1) k (acc ++ [⟨b, n.certs b.hash⟩])

def serveFork {σ : Type} (n : Node σ) (storeCertRange : Nat) (asked : List Nat) : List Bundle :=
  let cn := findCommon n asked 0
  if cn.1 = 1 then []
  else
    let r := serveRange n (cn.1 + 1) (min cn.2 (n.head.height - cn.1))
    match r.getLast? with
    | none => []
    | some last => if last.cert.isSome then r else serveExtend n (last.block.height + 1) storeCertRange r

/-- what the property compares between the adopting node and a clean follower -/
structure Obs (σ : Type) where
  head : Block
  cur : σ
  canon : Nat → Option Nat
  hdr : Nat → Option Block
  tx : Nat → TxLookup

def observe {σ : Type} (n : Node σ) : Obs σ := ⟨n.head, n.cur, n.canon, n.hdr, getTx n⟩

end IdenaModel.Fork
