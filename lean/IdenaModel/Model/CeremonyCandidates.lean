/-
M-CeremonyCandidates (C01, node history part): the candidate set / flip lottery a node holds for the running ceremony under
blocks, chain resets and restarts.

Modelled code (core/ceremony/ceremony.go): `handleFlipLotteryPeriod` on the block that starts the flip lottery calls
`calculateCeremonyCandidates`, which keeps its first result (`if vc.shardCandidates != nil { return }`); `completeEpoch` drops
it; the identities it was computed from are persisted in the epoch database (`WriteLotteryIdentities`) and `restoreState` (a
restart) takes them from there when a ceremony is running (`calculateCeremonyCandidates(true)`; from the current state when
nothing is persisted); the `BlockchainResetEvent` handler — as found it left the candidates alone; repaired (finding F38) it drops
them when the chain went back below the flip-lottery block (the state is in the None period again), so that the flip-lottery block
of the adopted branch computes and persists them anew.

The identities the candidates are computed from are abstract (`Nat`: a digest of the identity state at the flip-lottery block;
identities do not change between that block and the end of the ceremony: Kill*/invitation transactions are refused as late).
Core Lean only.
-/
namespace IdenaModel.CeremonyCandidates

/-- the canonical chain within the running epoch: blocks before the flip lottery, then — once it started — the identity digest
the lottery block saw and the number of blocks after it -/
structure Chain where
  before : Nat
  lot : Option (Nat × Nat)
  deriving DecidableEq, Repr

/-- the node: its chain, `vc.shardCandidates` (the digest they were computed from) and the persisted lottery identities of the
running epoch's database -/
structure Node where
  chain : Chain
  cands : Option Nat
  db : Option Nat
  deriving DecidableEq, Repr

def Node.init : Node := { chain := ⟨0, none⟩, cands := none, db := none }

inductive Op
  | block                 -- an ordinary block
  | lottery (ids : Nat)   -- the block that starts the flip lottery, on a state with identity digest `ids`
  | finish                -- the validation-finishing block (`completeEpoch`)
  | reset (k : Nat)       -- the newest k blocks of the running epoch are removed
  | restart
  deriving Repr

/-- what a node must hold: a function of the canonical chain alone -/
def expected (c : Chain) : Option Nat := c.lot.map (·.1)

/-- `dropOnReset` selects the repaired reset handler -/
def Node.step (dropOnReset : Bool) (n : Node) : Op → Node
  | .block =>
    match n.chain.lot with
    | none => { n with chain := { n.chain with before := n.chain.before + 1 } }
    | some (i, a) => { n with chain := { n.chain with lot := some (i, a + 1) } }
  | .lottery ids =>
    match n.chain.lot with
    | none =>
      match n.cands with
      | some c => { n with chain := { n.chain with lot := some (ids, 0) }, cands := some c }   -- the first result is kept
      | none => { chain := { n.chain with lot := some (ids, 0) }, cands := some ids, db := some ids }
    | some (i, a) => { n with chain := { n.chain with lot := some (i, a + 1) } }       -- cannot start twice: an ordinary block
  | .finish => { chain := ⟨0, none⟩, cands := none, db := none }   -- `completeEpoch`: the next epoch's (empty) database
  | .reset k =>
    match n.chain.lot with
    | none => { n with chain := { n.chain with before := n.chain.before - k }, cands := if dropOnReset then none else n.cands }
    | some (i, a) =>
      if k ≤ a then { n with chain := { n.chain with lot := some (i, a - k) } }   -- still past the lottery block
      else { n with chain := { before := n.chain.before - (k - a - 1), lot := none },    -- the lottery block itself is gone
                    cands := if dropOnReset then none else n.cands }
  | .restart =>   -- `restoreState`: only while a ceremony is running; persisted identities first, else the current state
    { n with cands := match n.chain.lot with
                      | none => none
                      | some (i, _) => (match n.db with | some d => some d | none => some i) }

def Node.run (dropOnReset : Bool) (n : Node) (ops : List Op) : Node := ops.foldl (Node.step dropOnReset) n

end IdenaModel.CeremonyCandidates
