/-
M-Lottery (C16): the flip lottery of `core/ceremony/lottery.go`, what a client is told to solve
(`getFlipsToSolve`, `core/ceremony/ceremony.go:791`; ceremony.go line numbers as of /repo commit b05364e5) and the recipient list / package index of the private flip
key package (`ceremony.go:1852 PrivateEncryptionKeyCandidates`, `:1887 getPrivateKeyPackageIndex`,
`core/mempool/keyspool.go:502 EncryptPrivateKeysPackage`, `:526 getEncryptedKeyFromPackage`).

One shard is described by `fl : List Nat`, the number of flips each candidate of the shard has submitted, in
candidate order (this is exactly what `getCandidatesAndFlips`, `ceremony.go:694`, builds: candidate `i` is an
author iff `fl[i] > 0`, its flips are `flipsPerAuthor[i]`, and `shard.flips` is the concatenation in candidate
order, so flip `j` of candidate `a` has the global index `flipIdx fl a j`; flip cids are distinct, which is what
lets `hashMap[string(f)]`, `lottery.go:149-152,174`, recover that index).

`map[int][]int` values are lists indexed by the key (all keys are candidate indexes `< n`), an absent key is `[]`
(the code only ever creates an entry by appending to it).  The queue (`container/list`) is a `List`, front first.
Go's `math/rand` permutations are INPUTS (`p1` for `fillAuthorsQueue`, `p2` for `appendAdditionalCandidates`, `p3`
for `GetFlipsDistribution`); nothing is assumed about them here.  Loops are structural recursions on the measure
the Go loop decreases.  Core Lean only.
-/
namespace IdenaModel.Lottery

/-- outcome of a modelled Go call -/
inductive Res (α : Type) where
  | ok (a : α)
  | panic      -- the Go code panics here (`Pop` of an empty queue, index out of range)
  | badInput   -- the supplied permutation stream is not one `math/rand.Perm` can deliver (too short / out of range)
  | fuel       -- the recursion measure ran out (shown unreachable: `Props/C16.lean`, `lottery_ne_fuel`)
  deriving Repr, DecidableEq

/-- lottery.go:10 -/
def CandidatesPerAuthor : Nat := 13

/-- `m[i] = append(m[i], v)` for a key `i < len` -/
def appendAt : List (List Nat) → Nat → Nat → List (List Nat)
  | [], _, _ => []
  | l :: t, 0, v => (l ++ [v]) :: t
  | l :: t, i + 1, v => l :: appendAt t i v

/-- `m[i]` of a `map[int][]int` (absent = nil) -/
def look (m : List (List Nat)) (i : Nat) : List Nat := m.getD i []

/-- lottery.go:320 getAuthorsIndexes (`IsAuthor = len(FlipCids) > 0`, ceremony.go:745) -/
def authorsIndexes (fl : List Nat) : List Nat :=
  (List.range fl.length).filter (fun i => decide (0 < fl.getD i 0))

/-! ### getNextSuitablePair (lottery.go:273) -/

/-- lottery.go:276: `currentCandidate != nextCandidate && !contains(used, nextCandidate)` -/
def suitable (cur : Nat) (used : List Nat) (x : Nat) : Bool := decide (cur ≠ x) && !used.contains x

/-- the loop exactly as written: `for i := 0; i < Len(); i++ { x := Pop(); if suitable {return x}; Push(x) }; return Pop()`.
`k` = `Len() - i`; `none` = `Pop` of an empty queue (nil dereference in `queueImpl.Pop`, lottery.go:346-349). -/
def gnspLoop (cur : Nat) (used : List Nat) : Nat → List Nat → Option (Nat × List Nat)
  | 0, [] => none
  | 0, x :: t => some (x, t)
  | _ + 1, [] => none
  | k + 1, x :: t => if suitable cur used x then some (x, t) else gnspLoop cur used k (t ++ [x])

def getNextSuitablePairLoop (q : List Nat) (cur : Nat) (used : List Nat) : Option (Nat × List Nat) :=
  gnspLoop cur used q.length q

/-- the queue cut at its first suitable element: `(before, x, after)` -/
def splitSuitable (cur : Nat) (used : List Nat) : List Nat → Option (List Nat × Nat × List Nat)
  | [] => none
  | x :: t =>
    if suitable cur used x then some ([], x, t)
    else match splitSuitable cur used t with
      | none => none
      | some (b, y, a) => some (x :: b, y, a)

/-- closed form of the loop (popping and re-pushing the unsuitable prefix rotates it behind the rest; a full
rotation without a hit leaves the queue as it was and the front is popped regardless of suitability).
Equal to the literal loop: `Proofs/Lottery.lean`, `gnsp_eq_loop`.  Linear instead of quadratic on lists. -/
def getNextSuitablePair (q : List Nat) (cur : Nat) (used : List Nat) : Option (Nat × List Nat) :=
  match splitSuitable cur used q with
  | some (b, x, a) => some (x, a ++ b)
  | none =>
    match q with
    | [] => none
    | x :: t => some (x, t)

/-! ### fillAuthorsQueue (lottery.go:296) -/

/-- `authorsIndexes[randomizedAuthors[idx]]` -/
def pickAuthor (authors cur : List Nat) (idx : Nat) : Option Nat :=
  match cur[idx]? with
  | none => none
  | some j => authors[j]?

/-- lottery.go:306-316; `k` = `totalAuthorsShouldBe - queue.Len()` -/
def fillLoop (authors : List Nat) : Nat → Nat → List Nat → List (List Nat) → List Nat → Res (List Nat)
  | 0, _, _, _, acc => .ok acc                                   -- :307
  | k + 1, idx, cur, rest, acc =>
    if idx = authors.length then                                 -- :310
      match rest with
      | [] => .badInput
      | p :: rest' =>                                            -- :312 random.Perm again, idx = 0
        match pickAuthor authors p 0 with
        | none => .badInput
        | some a => fillLoop authors k 1 p rest' (acc ++ [a])
    else
      match pickAuthor authors cur idx with
      | none => .badInput
      | some a => fillLoop authors k (idx + 1) cur rest (acc ++ [a])  -- :314-315

def fillAuthorsQueue (authors : List Nat) (total : Nat) (p1 : List (List Nat)) : Res (List Nat) :=
  match p1 with
  | [] => .badInput                                              -- :300 the first Perm is always drawn
  | p :: rest => if authors = [] then .ok [] else fillLoop authors total 0 p rest []   -- :302

/-! ### getFirstAuthorsDistribution (lottery.go:60) -/

/-- lottery.go:66-81; first argument = fuel = `queue.Len()` (every pass removes exactly one element) -/
def firstLoop (n : Nat) : Nat → List Nat → Nat → List (List Nat) → List (List Nat) →
    Res (List (List Nat) × List (List Nat))
  | _, [], _, apc, cpa => .ok (apc, cpa)                         -- :67
  | 0, _ :: _, _, _, _ => .fuel
  | k + 1, x :: t, ci, apc, cpa =>
    let ci := if ci = n then 0 else ci                           -- :70
    match getNextSuitablePair (x :: t) ci (look apc ci) with     -- :75
    | none => .panic
    | some (a, q') => firstLoop n k q' (ci + 1) (appendAt apc ci a) (appendAt cpa a ci)   -- :77-80

/-! ### appendAdditionalCandidates (lottery.go:86) -/

/-- lottery.go:116-127; fuel = `CandidatesPerAuthor - currentCount` -/
def topUpLoop (author : Nat) : Nat → List Nat → List (List Nat) → List (List Nat) →
    Res (List Nat × List (List Nat) × List (List Nat))
  | 0, cq, apc, cpa => .ok (cq, apc, cpa)                        -- :116
  | k + 1, cq, apc, cpa =>
    if cq = [] then .ok (cq, apc, cpa)                           -- :117
    else match getNextSuitablePair cq author (look cpa author) with   -- :122
      | none => .panic
      | some (c, cq') => topUpLoop author k cq' (appendAt apc c author) (appendAt cpa author c)  -- :124-126

/-- lottery.go:111-113 `if candidatesQueue.Len() == 0 { candidatesQueue = getRandomizedCandidates() }`: the next
permutation of the stream becomes the queue (`none`: stream exhausted or not a list of candidate indexes) -/
def refillQueue (n : Nat) (cq : List Nat) (p2 : List (List Nat)) : Option (List Nat × List (List Nat)) :=
  if cq = [] then
    match p2 with
    | [] => none
    | p :: ps => if p.all (fun c => decide (c < n)) then some (p, ps) else none
  else some (cq, p2)

/-- lottery.go:101-128, `todo` = the author indexes still to visit (`author := 0; author < len(candidates)`) -/
def appendLoop (n : Nat) : List Nat → List Nat → List (List Nat) → List (List Nat) → List (List Nat) →
    Res (List (List Nat) × List (List Nat))
  | [], _, _, apc, cpa => .ok (apc, cpa)
  | author :: todo, cq, p2, apc, cpa =>
    let value := look cpa author
    if value = [] then appendLoop n todo cq p2 apc cpa           -- :102-105 !ok
    else if value.length ≥ CandidatesPerAuthor then appendLoop n todo cq p2 apc cpa   -- :107
    else
      match refillQueue n cq p2 with                             -- :111-113
      | none => .badInput
      | some (cq1, p2') =>
        match topUpLoop author (CandidatesPerAuthor - value.length) cq1 apc cpa with
        | .ok (cq2, apc', cpa') => appendLoop n todo cq2 p2' apc' cpa'
        | .panic => .panic
        | .badInput => .badInput
        | .fuel => .fuel

def appendAdditionalCandidates (n : Nat) (p2 : List (List Nat)) (apc cpa : List (List Nat)) :
    Res (List (List Nat) × List (List Nat)) :=
  match p2 with
  | [] => .badInput                                              -- :99 first getRandomizedCandidates()
  | p :: ps =>
    if p.all (fun c => decide (c < n)) then appendLoop n (List.range n) p ps apc cpa else .badInput

/-! ### GetAuthorsDistribution for one shard (lottery.go:24) -/

def authorsDistribution (fl : List Nat) (q : Nat) (p1 p2 : List (List Nat)) :
    Res (List (List Nat) × List (List Nat)) :=
  let n := fl.length
  let empty : List (List Nat) := List.replicate n []
  if n = 0 then .ok (empty, empty)                               -- :29
  else
    let authors := authorsIndexes fl
    if authors = [] then .ok (empty, empty)                      -- :39
    else
      match fillAuthorsQueue authors (n * q) p1 with             -- :61, :297
      | .ok queue =>
        match firstLoop n queue.length queue 0 empty empty with  -- :47
        | .ok (apc, cpa) =>
          if authors.length > 7 then appendAdditionalCandidates n p2 apc cpa   -- :49
          else .ok (apc, cpa)
        | .panic => .panic
        | .badInput => .badInput
        | .fuel => .fuel
      | .panic => .panic
      | .badInput => .badInput
      | .fuel => .fuel

/-! ### GetFlipsDistribution (lottery.go:133) -/

/-- global index (position in `shard.flips`) of flip `j` of candidate `a` -/
def flipIdx (fl : List Nat) (a j : Nat) : Nat := (fl.take a).sum + j

/-- lottery.go:134 `distinct`: first occurrences, order kept -/
def distinct : List Nat → List Nat
  | [] => []
  | x :: t => x :: (distinct t).filter (fun y => decide (y ≠ x))

/-- lottery.go:158-171 getMinUsedAuthor: `(a, min, author)`; `usedAuthors[item]` with `item < n` -/
def minUsedLoop (used lu : List Nat) : List Nat → Nat → Nat → Nat
  | [], _, author => author
  | item :: t, min, author =>
    if lu.contains item then minUsedLoop used lu t min author
    else if used.getD item 0 < min then minUsedLoop used lu t (used.getD item 0) item
    else minUsedLoop used lu t min author

def getMinUsedAuthor (used authors lu : List Nat) : Nat := minUsedLoop used lu authors 999999 0

/-- lottery.go:181-194 chooseNextShortFlip: `(author, idx, currentFlipIndexByAuthor')`;
`none` = `authorFlips[currentAuthorFlipIdx]` out of range (an author without flips) -/
def chooseNext (fl used cur authors lu : List Nat) : Option (Nat × Nat × List Nat) :=
  let author := getMinUsedAuthor used authors lu
  let nfl := fl.getD author 0                                    -- len(flipsPerAuthor[author])
  let i0 := cur.getD author 0
  let i := if i0 ≥ nfl then 0 else i0                            -- :187-190
  if i < nfl then some (author, i, cur.set author (i + 1)) else none   -- :191, :193

/-- `localUsedAuthors[author] = true` (a set: `len` counts distinct keys) -/
def setAdd (lu : List Nat) (a : Nat) : List Nat := if lu.contains a then lu else a :: lu

/-- the `for j := 0; j < shortFlipsCount; j++` loops at lottery.go:210-218 (`reset = true`: the local set is
cleared when it has reached `len(authors)`) and :230-241 (`reset = false`); fuel = `shortFlipsCount - j`;
result `(usedAuthors, currentFlipIndexByAuthor, chosen (author, idx) pairs in order)` -/
def shortLoop (fl authors : List Nat) (reset : Bool) : Nat → List Nat → List Nat → List Nat → List (Nat × Nat) →
    Option (List Nat × List Nat × List (Nat × Nat))
  | 0, used, cur, _, chosen => some (used, cur, chosen)
  | k + 1, used, cur, lu, chosen =>
    let lu := if reset && lu.length == authors.length then [] else lu     -- :211
    match chooseNext fl used cur authors lu with
    | none => none
    | some (a, i, cur') =>
      shortLoop fl authors reset k (used.set a (used.getD a 0 + 1)) cur' (setAdd lu a) (chosen ++ [(a, i)])

/-- lottery.go:221-226 / :244-257: the long-session flips of one candidate before `distinct`; with `reset` every
flip of every author, otherwise those `(author, idx)` not chosen for the short session -/
def longRaw (fl authors : List Nat) (reset : Bool) (chosen : List (Nat × Nat)) : List Nat :=
  authors.flatMap fun a =>
    ((List.range (fl.getD a 0)).filter (fun i => reset || !chosen.contains (a, i))).map (flipIdx fl a)

/-- lottery.go:196-262, over the (remaining) permutation -/
def distLoop (fl : List Nat) (apc : List (List Nat)) (q : Nat) :
    List Nat → List Nat → List Nat → List (List Nat) → List (List Nat) → Res (List (List Nat) × List (List Nat))
  | [], _, _, short, long => .ok (short, long)
  | c :: rest, used, cur, short, long =>
    let raw := look apc c
    if raw = [] then distLoop fl apc q rest used cur short long              -- :198-201
    else
      let authors := distinct raw                                            -- :203
      let reset := decide (authors.length < q)                               -- :208
      match shortLoop fl authors reset q used cur [] [] with
      | none => .panic
      | some (used', cur', chosen) =>
        distLoop fl apc q rest used' cur'
          (short.set c (distinct (chosen.map fun p => flipIdx fl p.1 p.2)))  -- :260
          (long.set c (distinct (longRaw fl authors reset chosen)))          -- :261

/-- lottery.go:264-269 -/
def placeholder (total : Nat) (l : List Nat) : List Nat := if l = [] ∧ total > 0 then [0] else l

def flipsDistribution (fl : List Nat) (apc : List (List Nat)) (q : Nat) (p3 : List Nat) :
    Res (List (List Nat) × List (List Nat)) :=
  let n := fl.length
  match distLoop fl apc q p3 (List.replicate n 0) (List.replicate n 0) (List.replicate n []) (List.replicate n []) with
  | .ok (short, long) => .ok (short, long.map (placeholder fl.sum))
  | .panic => .panic
  | .badInput => .badInput
  | .fuel => .fuel

/-! ### the whole lottery of one shard (ceremony.go:567-571) -/

structure Result where
  apc : List (List Nat)     -- authorsPerCandidate
  cpa : List (List Nat)     -- candidatesPerAuthor
  short : List (List Nat)   -- shortFlipsPerCandidate
  long : List (List Nat)    -- longFlipsPerCandidate
  deriving Repr, DecidableEq

def lottery (fl : List Nat) (q : Nat) (p1 p2 : List (List Nat)) (p3 : List Nat) : Res Result :=
  match authorsDistribution fl q p1 p2 with
  | .ok (apc, cpa) =>
    match flipsDistribution fl apc q p3 with
    | .ok (short, long) => .ok ⟨apc, cpa, short, long⟩
    | .panic => .panic
    | .badInput => .badInput
    | .fuel => .fuel
  | .panic => .panic
  | .badInput => .badInput
  | .fuel => .fuel

/-! ### what a candidate is told to solve, and who can open whose key package -/

/-- ceremony.go:791 getFlipsToSolve for candidate index `c`, as indexes into `shard.flips`
(`allFlips[myFlips[j] % len(allFlips)]`) -/
def flipsToSolve (fl : List Nat) (lists : List (List Nat)) (c : Nat) : List Nat :=
  if fl.sum = 0 ∨ fl.length = 0 then [] else (look lists c).map (· % fl.sum)

/-- the candidate that submitted the flip with global index `f` (`flipAuthorMap`, ceremony.go:716) -/
def authorOfAux : List Nat → Nat → Nat → Option Nat
  | [], _, _ => none
  | k :: t, a, f => if f < k then some a else authorOfAux t (a + 1) (f - k)

def authorOf (fl : List Nat) (f : Nat) : Option Nat := authorOfAux fl 0 f

/-- ceremony.go:1866-1875: the candidates whose public keys the author encrypts its private flip key for
(`[]` = the error "does not have candidates") -/
def recipients (r : Result) (a : Nat) : List Nat := look r.cpa a

def indexOfAux : List Nat → Nat → Nat → Option Nat
  | [], _, _ => none
  | x :: t, c, i => if x = c then some i else indexOfAux t c (i + 1)

/-- ceremony.go:1887 getPrivateKeyPackageIndex (`none` = -1) -/
def packageIndex (r : Result) (c a : Nat) : Option Nat := indexOfAux (recipients r a) c 0

/-- keyspool.go:502 EncryptPrivateKeysPackage, inner layer.  The package is POSITIONAL: entry `i` belongs to recipient
`i` of `candidatesPerAuthor[author]` and is the author's private flip key encrypted to that recipient's public key; a
recipient whose stored public key does not parse (`bad c`: empty / malformed `PubKey`, keyspool.go:508-511) keeps its
position with an EMPTY entry (`none`).  (The outer layer is encrypted to the *public* flip key, which everybody gets.)
`enc c k` = ECIES encryption of `k` to candidate `c`'s public key: a parameter. -/
def keyPackage {K E : Type} (enc : Nat → K → E) (bad : Nat → Bool) (r : Result) (a : Nat) (key : K) : List (Option E) :=
  (recipients r a).map fun c => if bad c then none else some (enc c key)

/-- keyspool.go:526 getEncryptedKeyFromPackage after the outer layer is opened (`none` = the length error) -/
def keyFromPackage {E : Type} (pkg : List E) (i : Nat) : Option E := pkg[i]?

/-- ceremony.go GetFlipKeys + DecryptMessage: what candidate `c` obtains for the flips of author `a`
(`len(encryptedPrivateKey) == 0` ⇒ "private keys package is missing") -/
def obtainKey {K E : Type} (enc : Nat → K → E) (dec : Nat → E → Option K) (bad : Nat → Bool) (r : Result) (c a : Nat)
    (key : K) : Option K :=
  match packageIndex r c a with
  | none => none                                    -- "invalid private key index"
  | some i =>
    match keyFromPackage (keyPackage enc bad r a key) i with
    | some (some e) => dec c e
    | _ => none

end IdenaModel.Lottery
