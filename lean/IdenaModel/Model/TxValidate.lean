import IdenaModel.Model.Ledger
/-!
# M-Ledger — `validation.ValidateTx` clause by clause (`blockchain/validation/validation.go`)

A validator is a list of clauses in **source order**; the first clause that fires is the verdict
(`firstFail`).  `chk c e`: `if c { return e }`;  `deref isNil`: the code dereferences a pointer here
(`*tx.To`) — a nil pointer at this point is a panic;  `accept c`: `if c { return nil }`.
Conditions that mention `*tx.To` after its nil check are written with `toD` (`tx.to.getD 0`): they are only
reached when `tx.to ≠ none`, the `deref` clause in front of them keeps the panic position faithful.
-/
namespace IdenaModel.Ledger

inductive Clause
  | chk (c : Bool) (e : VErr)
  | deref (isNil : Bool)
  | accept (c : Bool)

def firstFail : List Clause → Outcome
  | [] => .ok
  | .chk c e :: t => if c then .err e else firstFail t
  | .deref n :: t => if n then .panic else firstFail t
  | .accept c :: t => if c then .ok else firstFail t

def maxPayloadSize : Nat := 3 * 1024                 -- validation.go:23
def maxPayloadSizeU11 : Nat := 3 * 1024 * 1024       -- validation.go:24
def godValidUntilNetworkSize : Nat := 10             -- validation.go:26
def maxBlockGas (u11 : Bool) : Nat := if u11 then 5000 * 1024 else 3000 * 1024   -- types.go:47-49,78
def wordPairsPerFlip : Nat := 3                      -- common.WordPairsPerFlip

/-- `math.ToInt(decimal(a).Div(decimal(b)))` for `a ≥ 0`, `b > 0`: shopspring `DivRound` to 16 fractional
digits (round half up), then truncation to an integer (`common/math/decimal.go:12`) -/
def divRound16 (a b : Nat) : Nat :=
  let p := 10 ^ 16
  let q := a * p / b
  let r := a * p % b
  (if 2 * r ≥ b then q + 1 else q) / p

/-- `validationTxBitMask` (`core/state/util.go:23`) as a bit index -/
def validationBit : TxType → Option Nat
  | .answersHash => some 0 | .shortAnswers => some 1 | .evidence => some 2 | .longAnswers => some 3
  | _ => none

/-- `Identity.HasValidationTx` -/
def hasValidationTx (i : IInfo) (t : TxType) : Bool :=
  match validationBit t with
  | some b => (i.validationBits / 2 ^ b) % 2 = 1
  | none => false

/-- `Identity.GetMaximumAvailableFlips` (uint8 arithmetic, `state_object.go:584`) -/
def maxAvailableFlips (i : IInfo) : Nat :=
  (i.requiredFlips + (if i.state = .verified then 1 else if i.state = .human then 2 else 0)) % 256

/-- `state.IsCeremonyCandidate` (`state_object.go:1621`) -/
def isCeremonyCandidate (i : IInfo) : Bool :=
  (i.state = .candidate || i.state.newbieOrBetter || i.state = .suspended || i.state = .zombie) &&
  decide (i.flips.length % 256 ≥ i.requiredFlips)

/-- `Identity.IsDiscriminatedStake` (`state_object.go:630`) -/
def isDiscriminatedStake (i : IInfo) (f : IFunds) (thr : Nat) : Bool :=
  i.state.newbieOrBetter && decide (thr ≠ 0) && (decide (f.stake = 0) || decide (f.stake < (thr : Int)))

/-- `Identity.IsDiscriminated` (`state_object.go:618`) -/
def isDiscriminated (i : IInfo) (f : IFunds) (thr : Nat) (epoch : Nat) : Bool :=
  (i.state = .newbie && decide (epoch > 2)) ||
  ((i.pendingUndeleg).isSome || decide (i.undelegationEpoch > 0)) ||
  isDiscriminatedStake i f thr

/-- `stateDelegationSwitch.DelegationSwitch` -/
def delegationSwitchOf (l : List (Nat × Nat)) (a : Nat) : Option Nat :=
  match l.find? (·.1 = a) with
  | some p => some p.2
  | none => none

section
variable (c : Cfg) (s : State) (tx : Tx) (mode : Mode)

/-- `ValidateFee` (`validation.go:236`) as clauses; `minFpg` is the caller's `minFeePerGas` (nil ↦ 0) -/
def feeClauses (minFpg : Nat) : List Clause :=
  [ .chk (c.u10 && decide (minFpg > 0) &&
          decide (divRound16 tx.maxFee.toNat minFpg % 2 ^ 64 > maxBlockGas c.u11)) .tooHighMaxFee,   -- :238-247
    .chk (mode = .inBlock && decide (calcFee s.g.netSize s.g.feePerGas tx > tx.maxFee)) .bigFee ]   -- :249-255

/-- `validateTotalCost` (`validation.go:210`) -/
def txCostForValidation : Int :=
  if mode ≠ .inBlock then calcMaxCost tx
  else if tx.type.isContract then calcMaxCost tx
  else calcCost s.g.netSize s.g.feePerGas tx

/-- the clauses of `ValidateTx` before the per-type validator (`validation.go:143-197`) -/
def commonClauses (minFpg : Nat) : List Clause :=
  let snd := tx.sender
  let P := s.g.period
  [ .chk (snd = 0) .invalidSignature,                                                          -- :146
    .chk (decide (tx.payloadLen > (if c.u11 then maxPayloadSizeU11 else maxPayloadSize))) .invalidPayload, -- :150-156
    .chk (decide (tx.amount < 0)) .negativeValue,                                              -- :158
    .chk (decide (tx.maxFee < 0)) .negativeValue,                                              -- :162
    .chk (decide (tx.tips < 0)) .negativeValue,                                                -- :166
    .chk (decide (s.g.epoch > tx.epoch)) .invalidEpoch,                                        -- :172
    .chk (decide ((s.am snd).nonce ≥ tx.nonce) && decide ((s.am snd).epoch = s.g.epoch) &&
          decide (tx.epoch = s.g.epoch)) .invalidNonce,                                        -- :178
    .chk (decide (calcFee s.g.netSize minFpg tx > tx.maxFee)) .invalidMaxFee,                  -- :182-185
    .chk (!tx.type.ceremonial && mode ≠ .inBlock && (P = .flipLottery || P = .shortSession)) .lateTx ] -- :188
  ++ feeClauses c s tx mode minFpg                                                             -- :192
  ++ [ .chk (decide (txCostForValidation s tx mode > 0) &&
             decide (s.balance snd < txCostForValidation s tx mode)) .insufficientFunds ]      -- :195, :220

/-- `validateCeremonyTx` (`validation.go:226`) -/
def ceremonyClauses : List Clause :=
  [ .chk (hasValidationTx (s.ii tx.sender) tx.type) .duplicatedTx,
    .chk (s.g.period = .none) .earlyTx ]

/-- the per-type validators, each in source order -/
def typeClauses : List Clause :=
  let snd := tx.sender
  let toNil := tx.to.isNone
  let toD := tx.to.getD 0
  let toSome := tx.to.isSome
  let amtNZ := decide (tx.amount ≠ 0)
  let P := s.g.period
  let late := decide (P.toNat ≥ Period.flipLottery.toNat)
  let god := s.g.godAddress
  let me := s.ii snd
  let N := s.g.netSize
  match tx.type with
  | .send =>                                                              -- validateSendTx :260
    [ .chk toNil .recipientRequired ]
  | .activation =>                                                        -- validateActivationTx :269
    [ .chk (tx.payloadLen = 0) .emptyPayload,
      .chk toNil .recipientRequired,
      .deref toNil,
      .chk (tx.ext.payloadAddr ≠ toD) .invalidPayload,
      .chk amtNZ .invalidAmount,
      .chk (toNil || toD = 0) .recipientRequired,
      .chk (toD = god && decide (s.g.epoch > 0)) .invalidRecipient,
      .chk (s.rg toD).validated .nodeAlreadyActivated,
      .chk (me.state ≠ .invite) .invitationIsMissing,
      .chk late .lateTx,
      .chk ((s.ii toD).state ≠ .invite && (s.ii toD).state ≠ .undefined) .invalidRecipient,
      .chk (c.u10 && (s.ii toD).state = .invite && snd ≠ toD) .invalidRecipient ]
  | .invite =>                                                            -- validateSendInviteTx :317
    [ .chk (toNil || toD = 0) .recipientRequired,
      .chk (snd ≠ god && me.invites = 0) .insufficientInvites,
      .chk (snd = god && s.g.godInvites = 0) .insufficientInvites,
      .chk late .lateTx,
      .chk ((s.ii toD).state ≠ .undefined) .invalidRecipient,
      .chk (toD = god && (snd ≠ god || decide (s.g.epoch > 0))) .invalidRecipient ]
  | .kill =>                                                              -- validateKillIdentityTx :581
    [ .chk toSome .invalidRecipient,
      .chk amtNZ .invalidAmount,
      .chk late .lateTx,
      .chk (me.state = .candidate || me.state = .newbie || me.state = .killed) .invalidSender,
      .accept (snd = god),
      .chk (me.state = .undefined || me.state = .invite) .invalidSender ]
  | .submitFlip =>                                                        -- validateSubmitFlipTx :343
    let noFlips := decide (maxAvailableFlips me = me.flips.length % 256)
    [ .chk toSome .invalidRecipient,
      .chk amtNZ .invalidAmount,
      .chk late .lateTx,
      .chk (decide (me.state.toNat < IdState.candidate.toNat)) .notCandidate,
      .chk ((noFlips && snd ≠ god) ||
            (noFlips && snd = god && decide (N > godValidUntilNetworkSize))) .insufficientFlips,
      .chk (!tx.ext.attach) .invalidPayload,
      .chk (!tx.ext.cidOk) .invalidPayload,
      .chk (decide (wordPairsPerFlip * me.requiredFlips ≤ tx.ext.pair) && snd ≠ god) .invalidPayload,
      .chk (match me.flips.find? (fun f => f.cid = tx.ext.cid || f.pair = tx.ext.pair) with
            | some f => f.cid = tx.ext.cid | none => false) .duplicatedFlip,
      .chk ((me.flips.find? (fun f => f.cid = tx.ext.cid || f.pair = tx.ext.pair)).isSome) .duplicatedFlipPair ]
  | .answersHash =>                                                       -- validateSubmitAnswersHashTx :393
    [ .chk toSome .invalidRecipient,
      .chk amtNZ .invalidAmount,
      .chk (tx.payloadLen ≠ 32) .invalidPayload,
      .chk (decide (P.toNat < Period.shortSession.toNat) && mode = .inBlock) .earlyTx,
      .chk (!isCeremonyCandidate me) .notCandidate ]
    ++ ceremonyClauses s tx
  | .shortAnswers =>                                                      -- validateSubmitShortAnswersTx :418
    [ .chk toSome .invalidRecipient,
      .chk amtNZ .invalidAmount,
      .chk (mode = .inbound && P = .afterLong) .lateTx,
      .chk (decide (P.toNat < Period.longSession.toNat) && mode = .inBlock) .earlyTx,
      .chk (!isCeremonyCandidate me) .notCandidate ]
    ++ ceremonyClauses s tx
    ++ [ .chk (!tx.ext.attach) .invalidPayload ]
  | .longAnswers =>                                                       -- validateSubmitLongAnswersTx :452
    [ .chk toSome .invalidRecipient,
      .chk amtNZ .invalidAmount,
      .chk (mode = .inbound && P = .afterLong) .lateTx,
      .chk (decide (P.toNat < Period.shortSession.toNat) && mode = .inBlock) .earlyTx,
      .chk (!isCeremonyCandidate me) .notCandidate ]
    ++ ceremonyClauses s tx
    ++ [ .accept (s.g.epoch = 0),
         .accept tx.ext.markedValid,
         .chk (!tx.ext.attach || !tx.ext.proofSalt) .invalidPayload,
         .chk (!tx.ext.vrfOk) .other ]
  | .evidence =>                                                          -- validateEvidenceTx :510
    [ .chk toSome .invalidRecipient,
      .chk amtNZ .invalidAmount,
      .chk (decide (P.toNat < Period.longSession.toNat) && mode = .inBlock) .earlyTx,
      .chk (!isCeremonyCandidate me) .notCandidate,
      .chk ((me.state = .candidate && decide (N ≠ 0)) || me.effDelegatee.isSome) .invalidSender,
      .chk (isDiscriminated me (s.idf snd) s.g.discriminationThreshold s.g.epoch && snd ≠ god) .invalidSender ]
    ++ ceremonyClauses s tx
  | .onlineStatus =>                                                      -- validateOnlineStatusTx :539
    let pending := s.g.statusSwitch.contains snd
    let delayed := s.g.delayedPenalties.contains snd
    let isOnline := (s.rg snd).online
    [ .chk toSome .invalidRecipient,
      .chk amtNZ .invalidAmount,
      .chk late .lateTx,
      .chk (!(s.rg snd).validated && !(s.rg snd).pool) .invalidSender,
      .chk (!tx.ext.attach) .invalidPayload,
      .chk me.effDelegatee.isSome .invalidSender,
      .chk (tx.ext.online && ((isOnline && !pending && !delayed) || (!isOnline && pending))) .isAlreadyOnline,
      .chk (!tx.ext.online && ((!isOnline && !pending) || (isOnline && pending))) .isAlreadyOffline ]
  | .killInvitee =>                                                       -- validateKillInviteeTx :606
    [ .chk (toNil || toD = 0) .recipientRequired,
      .chk (toD = god) .invalidRecipient,
      .chk amtNZ .invalidAmount,
      .chk late .lateTx,
      .chk ((s.ii toD).inviter ≠ some snd) .invalidRecipient,
      .chk ((s.ii toD).state ≠ .invite && (s.ii toD).state ≠ .candidate) .invalidRecipient ]
  | .changeGodAddress =>                                                  -- validateChangeGodAddressTx :631
    [ .chk (toNil || toD = 0) .recipientRequired,
      .chk amtNZ .invalidAmount,
      .chk (snd ≠ god) .invalidSender,
      .chk late .lateTx ]
  | .burn =>                                                              -- validateBurnTx :649
    [ .chk toSome .invalidRecipient,
      .chk (!tx.ext.attach || !tx.ext.keyNonEmpty) .invalidPayload ]
  | .changeProfile =>                                                     -- validateChangeProfileTx :660
    [ .chk toSome .invalidRecipient,
      .chk amtNZ .invalidAmount,
      .chk (!tx.ext.attach) .invalidPayload ]
  | .deleteFlip =>                                                        -- validateDeleteFlipTx :674
    [ .chk toSome .invalidRecipient,
      .chk amtNZ .invalidAmount,
      .chk late .lateTx,
      .chk (!tx.ext.attach) .invalidPayload,
      .chk (!me.flips.any (·.cid = tx.ext.cid)) .flipIsMissing ]
  | .call =>                                                              -- validateCallContractTx :708
    [ .chk (toNil || toD = 0) .recipientRequired,
      .chk (s.af toD).contract.isNone .invalidRecipient,
      .chk (!tx.ext.attach) .invalidPayload ]
  | .deploy =>                                                            -- validateDeployContractTx :726
    [ .chk toSome .invalidRecipient,
      .chk (!tx.ext.attach) .invalidPayload,
      .chk (tx.ext.embedded && decide (tx.amount < ((s.g.feePerGas * 3000000 : Nat) : Int))) .invalidDeployAmount,
      .chk (tx.ext.hasCode && !c.u11) .invalidPayload,
      .chk (!tx.ext.embedded && !tx.ext.hasCode) .invalidPayload ]
  | .terminate =>                                                         -- validateTerminateContractTx :753
    [ .chk (toNil || toD = 0) .recipientRequired,
      .chk (s.af toD).contract.isNone .invalidRecipient,
      .chk ((match (s.af toD).contract with | some k => !k.embedded | none => false) && c.u11) .invalidRecipient,
      .chk (c.u11 && amtNZ) .invalidAmount,
      .chk (!tx.ext.attach) .invalidPayload ]
  | .delegate =>                                                          -- validateDelegateTx :779
    let delegatee := me.effDelegatee
    let sw := delegationSwitchOf s.g.delegationSwitch snd
    [ .chk (toNil || toD = 0) .recipientRequired,
      .chk (snd = toD) .invalidRecipient,
      .chk amtNZ .invalidAmount,
      .chk late .lateTx,
      .chk (s.rg snd).pool .invalidSender,
      .chk (s.ii toD).effDelegatee.isSome .invalidRecipient,
      .chk (!c.u10 && (s.ii toD).pendingUndeleg.isSome) .invalidRecipient,
      -- delegatee == nil branch (:815-824)
      .chk (delegatee.isNone && (match sw with | some d => d ≠ 0 | none => false)) .senderHasDelegatee,
      .chk (delegatee.isNone && !c.u10 &&
            (match me.pendingUndeleg with | some p => p ≠ toD | none => false)) .invalidRecipient,
      -- delegatee != nil branch (:825-832)
      .chk (delegatee.isSome && (match sw with | some d => d ≠ 0 | none => true)) .senderHasDelegatee,
      .chk (delegatee.isSome && delegatee ≠ some toD) .invalidRecipient,
      .chk (c.u10 && decide (me.penaltySeconds > 0)) .senderHasPenalty ]
  | .undelegate =>                                                        -- validateUndelegateTx :843
    let delegatee := me.effDelegatee
    let sw := delegationSwitchOf s.g.delegationSwitch snd
    [ .chk toSome .invalidRecipient,
      .chk amtNZ .invalidAmount,
      .chk late .lateTx,
      .chk (delegatee.isSome && (match sw with | some d => d = 0 | none => false)) .senderHasNoDelegatee,
      .chk (delegatee.isNone && (match sw with | some d => d = 0 | none => true)) .senderHasNoDelegatee,
      .chk (me.delegationEpoch = s.g.epoch) .wrongEpoch ]
  | .killDelegator =>                                                     -- validateKillDelegatorTx :878
    [ .chk (toNil || toD = 0) .recipientRequired,
      .chk amtNZ .invalidAmount,
      .chk late .lateTx,
      .chk ((s.ii toD).effDelegatee ≠ some snd) .invalidSender ]
  | .storeToIpfs =>                                                       -- validateStoreToIpfsTx :898
    [ .chk toSome .invalidRecipient,
      .chk amtNZ .invalidAmount,
      .chk (!tx.ext.attach) .invalidPayload,
      .chk (!tx.ext.cidOk) .other ]
  | .replenishStake =>                                                    -- validateReplenishStakeTx :919
    let st := (s.ii toD).state
    [ .chk toNil .recipientRequired,
      .deref toNil,
      .chk (!((st ≠ .undefined && st ≠ .killed) || (c.u10 && toD = god))) .invalidRecipient,
      .chk late .lateTx ]
  | .unknown =>                                                           -- :199-202
    [ .chk true .unknownType ]

/-- `validation.ValidateTx(appState, tx, minFeePerGas, txType)` -/
def validateTx (minFpg : Nat) : Outcome :=
  firstFail (commonClauses c s tx mode minFpg ++ typeClauses c s tx mode)

end

end IdenaModel.Ledger
