/-!
# Model of the proto3 wire format used by idena-go's hand-written codecs (C18)

idena-go serialises every consensus/storage/wire object by filling a generated protobuf struct
(`/repo/protobuf/models.pb.go`, from `models.proto`) and calling `proto.Marshal`
(`blockchain/types/types.go:467-1747`, `core/state/state_object.go:158-757`, …).  The `.proto` file only uses
`uint32`, `uint64`, `int64`, `bool` (wire type 0, varint), `bytes`, `string`, nested messages (wire type 2,
length-delimited), `repeated bytes`, `repeated <message>` and `repeated uint64` (packed, wire type 2).
No `fixed32/64`, `sint*`, `float`, `oneof`, `map`, `enum`.

The model is the deterministic encoder of `google.golang.org/protobuf` for such messages:
* a field is `varint(fieldNumber*8 + wireType)` followed by the payload,
* fields are emitted in field-number order (here: in list order; `WF` demands the list sorted by number),
* a singular scalar / bytes field holding the proto3 default (`0`, `false`, empty) is omitted,
* an absent sub-message is omitted, a present empty one is emitted with length 0,
* repeated `bytes`/messages: one field per element (empty elements kept),
* repeated `uint64`: one length-delimited field with the concatenated varints; omitted when empty.

`int64` and `bool` values are carried as the `Nat` that goes into the varint (two's complement modulo `2^64`,
`0/1`); the conversions are in `Model/CodecTable.lean`.

Not modelled (reject/merge behaviour of the *decoder* on inputs that are not encoder outputs; irrelevant for
`decode (encode m)`): the 10-byte varint limit, the 2 GiB size limit, unknown fields (kept by the library, rejected
here), wire types 1/3/4/5, "last one wins"/merge for duplicated singular fields, unpacked encoding of packed fields,
UTF-8 validation of `string` (a side condition of the Go tie, see `checks/props/C18.py`).
Core Lean only (this file is compiled into `oracle_c18`).
-/
namespace IdenaModel.ProtoWire

abbrev Bytes := List Nat

/-! ## varint (base-128, little-endian groups, continuation bit `0x80`) -/

/-- `protowire.AppendVarint` -/
def varint (n : Nat) : Bytes :=
  if n < 128 then [n] else (n % 128 + 128) :: varint (n / 128)
termination_by n
decreasing_by omega

/-- `protowire.ConsumeVarint` without the 10-byte limit -/
def readVarint : Bytes → Option (Nat × Bytes)
  | [] => none
  | b :: t =>
    if b < 128 then some (b, t)
    else match readVarint t with
      | some (n, r) => some (b - 128 + 128 * n, r)
      | none => none

/-! ## schema-free layer: a message is a sequence of (field number, wire type 0 | 2, payload) -/

inductive Raw where
  | vint (n : Nat)
  | len (b : Bytes)
deriving DecidableEq, Repr

/-- tag + payload of one field (`wire type 0` = varint, `2` = length-delimited) -/
def encRawField (f : Nat) : Raw → Bytes
  | .vint n => varint (f * 8) ++ varint n
  | .len b => varint (f * 8 + 2) ++ (varint b.length ++ b)

def encRaw : List (Nat × Raw) → Bytes
  | [] => []
  | (f, r) :: t => encRawField f r ++ encRaw t

/-- split a byte string into its fields; `fuel` bounds the number of fields (`bs.length` always suffices) -/
def readFields : Nat → Bytes → Option (List (Nat × Raw))
  | 0, bs => if bs.isEmpty then some [] else none
  | fuel + 1, bs =>
    if bs.isEmpty then some [] else
    match readVarint bs with
    | none => none
    | some (key, r1) =>
      if key / 8 = 0 then none            -- field number 0 is illegal
      else if key % 8 = 0 then
        match readVarint r1 with
        | none => none
        | some (n, r2) => (readFields fuel r2).map ((key / 8, Raw.vint n) :: ·)
      else if key % 8 = 2 then
        match readVarint r1 with
        | none => none
        | some (l, r2) =>
          if r2.length < l then none
          else (readFields fuel (r2.drop l)).map ((key / 8, Raw.len (r2.take l)) :: ·)
      else none

/-- body of a packed repeated varint field -/
def encVarints : List Nat → Bytes
  | [] => []
  | n :: t => varint n ++ encVarints t

def readVarints : Nat → Bytes → Option (List Nat)
  | 0, bs => if bs.isEmpty then some [] else none
  | fuel + 1, bs =>
    if bs.isEmpty then some [] else
    match readVarint bs with
    | none => none
    | some (n, r) => (readVarints fuel r).map (n :: ·)

/-! ## typed layer: generic message values with a schema -/

/-- value of one field occurrence -/
inductive Val where
  | int (n : Nat)                      -- uint32 / uint64 / bool / int64 (as the varint's Nat)
  | bytes (b : Bytes)                  -- bytes / string
  | msg (fs : List (Nat × Val))        -- nested message
  | packed (ns : List Nat)             -- repeated uint64 (packed)
deriving Repr

/-- a message: field occurrences in emission order (a repeated field occurs several times) -/
abbrev Msg := List (Nat × Val)

inductive Kind where
  | int
  | bytes
  | msg (s : List (Nat × Bool × Kind))
  | packed
deriving Repr

/-- schema of a message type: field number ↦ (repeated?, kind) -/
abbrev Schema := List (Nat × Bool × Kind)

mutual
/-- payload of a field as it appears on the wire -/
def Val.toRaw : Val → Raw
  | .int n => .vint n
  | .bytes b => .len b
  | .msg fs => .len (encMsg fs)
  | .packed ns => .len (encVarints ns)
/-- the encoder proper: all field occurrences, in list order -/
def encMsg : List (Nat × Val) → Bytes
  | [] => []
  | (f, v) :: t => encRawField f v.toRaw ++ encMsg t
end

def mapOpt {α β : Type} (g : α → Option β) : List α → Option (List β)
  | [] => some []
  | a :: t =>
    match g a, mapOpt g t with
    | some b, some bs => some (b :: bs)
    | _, _ => none

/-- interpret one raw field with the schema; `dec` decodes nested messages -/
def decField (dec : Schema → Bytes → Option Msg) (s : Schema) : Nat × Raw → Option (Nat × Val)
  | (f, .vint n) =>
    match s.lookup f with
    | some (_, .int) => some (f, .int n)
    | _ => none
  | (f, .len b) =>
    match s.lookup f with
    | some (_, .bytes) => some (f, .bytes b)
    | some (_, .msg s') => (dec s' b).map fun m => (f, Val.msg m)
    | some (_, .packed) => (readVarints b.length b).map fun ns => (f, Val.packed ns)
    | _ => none

/-- the decoder; `d` bounds the nesting depth (`d > depth` suffices, see `wire_roundtrip`) -/
def decMsg : Nat → Schema → Bytes → Option Msg
  | 0, _, _ => none
  | d + 1, s, bs =>
    match readFields bs.length bs with
    | none => none
    | some raws => mapOpt (decField (decMsg d) s) raws

/-! ## schema conformance, depth, normal form -/

mutual
def Val.conf : Kind → Val → Bool
  | .int, .int _ => true
  | .bytes, .bytes _ => true
  | .msg s, .msg fs => confMsg s fs
  | .packed, .packed _ => true
  | _, _ => false
/-- every occurrence has a field number ≥ 1 that the schema knows, with a value of the declared kind -/
def confMsg (s : Schema) : List (Nat × Val) → Bool
  | [] => true
  | (f, v) :: t =>
    (match s.lookup f with
     | some (_, k) => v.conf k
     | none => false) && decide (1 ≤ f) && confMsg s t
end

mutual
def Val.depth : Val → Nat
  | .msg fs => depthMsg fs + 1
  | _ => 0
def depthMsg : List (Nat × Val) → Nat
  | [] => 0
  | (_, v) :: t => max v.depth (depthMsg t)
end

/-- proto3 default of a singular field (omitted on the wire); an empty packed list is always omitted -/
def Val.isDefault : Val → Bool
  | .int n => n == 0
  | .bytes b => b.isEmpty
  | .packed ns => ns.isEmpty
  | .msg _ => false

def Val.isPacked : Val → Bool
  | .packed _ => true
  | _ => false

/-- is this occurrence left out by the encoder? (`rep` = the field is repeated) -/
def omitted (rep : Bool) (v : Val) : Bool := (!rep || v.isPacked) && v.isDefault

mutual
def Val.norm : Kind → Val → Val
  | .msg s, .msg fs => .msg (normMsg s fs)
  | _, v => v
/-- what `proto.Marshal` makes of a populated struct: default-valued singular fields and empty packed lists are
dropped (recursively); elements of repeated fields are kept even when empty -/
def normMsg (s : Schema) : List (Nat × Val) → List (Nat × Val)
  | [] => []
  | (f, v) :: t =>
    match s.lookup f with
    | some (rep, k) =>
      if omitted rep v then normMsg s t
      else (f, v.norm k) :: normMsg s t
    | none => (f, v) :: normMsg s t
end

/-- `proto.Marshal` of a struct whose populated fields are `m` -/
def encode (s : Schema) (m : Msg) : Bytes := encMsg (normMsg s m)

/-- `proto.Unmarshal` into the struct type with schema `s` -/
def decode (d : Nat) (s : Schema) (bs : Bytes) : Option Msg := decMsg d s bs

/-! ### field order: occurrences sorted by field number, singular fields at most once -/

def isRep (s : Schema) (f : Nat) : Bool :=
  match s.lookup f with
  | some (rep, _) => rep
  | none => false

mutual
def Val.sorted : Kind → Val → Bool
  | .msg s, .msg fs => sortedMsg s fs
  | _, _ => true
def sortedMsg (s : Schema) : List (Nat × Val) → Bool
  | [] => true
  | (f, v) :: t =>
    (match s.lookup f with
     | some (_, k) => v.sorted k
     | none => true) &&
    (match t with
     | [] => true
     | (g, _) :: _ => decide (f < g) || (decide (f = g) && isRep s f)) &&
    sortedMsg s t
end

/-- well-formed = conforming to the schema and in emission order -/
def wfMsg (s : Schema) (m : Msg) : Bool := confMsg s m && sortedMsg s m

/-! ### proto3 getters (absent ⇒ default) -/

def getInt (m : Msg) (f : Nat) : Nat :=
  match m.lookup f with
  | some (.int n) => n
  | _ => 0

def getBytes (m : Msg) (f : Nat) : Bytes :=
  match m.lookup f with
  | some (.bytes b) => b
  | _ => []

/-- singular sub-message: `none` = absent (nil pointer in Go) -/
def getMsg (m : Msg) (f : Nat) : Option Msg :=
  match m.lookup f with
  | some (.msg fs) => some fs
  | _ => none

end IdenaModel.ProtoWire
