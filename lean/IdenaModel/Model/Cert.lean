/-
M-Cert (C07): committee draw, quorum thresholds, certificate validation, vote counter, vote admission.

Follows, clause by clause,
  * `blockchain/blockchain.go:2398` `ValidateBlockCert`, `:2641` `GetCommitteeSize`, `:2658` `GetCommitteeVotesThreshold`
  * `core/validators/validators.go:58` `determineValidators`, `:81` `GetOnlineValidators`, `:186` `loadValidNodes`,
    `:462` `VotesCountSubtrahend`, `:476` `sortedAddresses.add`, `:504` `pool.add`
  * `consensus/engine.go:495` `countVotes`, `blockchain/types/types.go:1009` `FullBlockCert.Compress`
  * `pengings/votes.go:54` `AddVote`

Addresses are `Nat` (the 20 bytes read big-endian: `bytes.Compare` = `<` on `Nat`; the zero address is `0`),
hashes are `Nat` identifiers (only compared for equality; `0` = the zero hash).
External functions are parameters: `recover : σ → Msg → Option Nat` (ECDSA public-key recovery followed by
`PubKeyBytesToAddress`; `none` = `Ecrecover` returned an error) and the permutation `perm` produced by
`rand.Perm` for the seed the code derives from (block seed, round, step).
Sets (`mapset.Set`) are duplicate-free lists built with `List.insert`; Go maps are association lists.
Core Lean only.
-/
namespace IdenaModel.Cert

/-! ## 1. The three formulas that pass through `float64` (DESIGN 2.7)

`int(math.Round(float64(n) * c))` for a `float64` constant `c = mant · 2^-sh` (`2^52 ≤ mant < 2^53`) is computed with
exact integer arithmetic: the exact product `n·mant` is rounded to 53 significant bits (round half to even, the IEEE
default used by Go), then `math.Round` rounds half away from zero.  (`n < 2^53` is exactly representable; the values
here are far from the subnormal/overflow range.)  Note that this is *not* the same as rounding the rational
`n·7/10`: `round(45 * 0.7) = 31` because `0.7` is not representable (the driver checks every argument against the
real Go functions). -/

def bitLenAux (p : Nat) : Nat → Nat → Nat
  | 0, k => k
  | fuel + 1, k => if p < 2 ^ k then k else bitLenAux p fuel (k + 1)

/-- number of significant bits of `p` (for `p < 2^128`) -/
def bitLen (p : Nat) : Nat := bitLenAux p 128 0

/-- `⌊q / 2^t + 1/2⌋` : `math.Round` of the non-negative dyadic `q · 2^-t` -/
def roundShift (q t : Nat) : Nat := if t = 0 then q else (q + 2 ^ (t - 1)) / 2 ^ t

def mulRound (n mant sh : Nat) : Nat :=
  let p := n * mant
  let len := bitLen p
  if len ≤ 53 then roundShift p sh
  else
    let s := len - 53
    let q := p / 2 ^ s
    let r := p % 2 ^ s
    let half := 2 ^ (s - 1)
    let q' := if half < r ∨ (r = half ∧ q % 2 = 1) then q + 1 else q
    if sh ≤ s then q' * 2 ^ (s - sh) else roundShift q' (sh - s)

/-- `0.3 = 0x3fd3333333333333` (config/consensus.go:84 `CommitteePercent`) -/
def mant03 : Nat := 0x13333333333333
def sh03 : Nat := 54
/-- `0.7 = 0x3fe6666666666666` (config/consensus.go:85 `FinalCommitteePercent`) -/
def mant07 : Nat := 0x16666666666666
def sh07 : Nat := 53
/-- `0.65 = 0x3fe4cccccccccccd` (config/consensus.go:86 `AgreementThreshold`) -/
def mant065 : Nat := 0x14CCCCCCCCCCCD
def sh065 : Nat := 53
/-- config/consensus.go:116 -/
def maxCommitteeSize : Nat := 100

/-- blockchain.go:2641 `GetCommitteeSize` (`cnt = vc.ValidatorsSize()`) -/
def committeeSize (cnt : Nat) (final : Bool) : Nat :=
  if cnt ≤ 8 then cnt
  else
    let size := if final then mulRound cnt mant07 sh07 else mulRound cnt mant03 sh03
    if size > maxCommitteeSize then maxCommitteeSize else size

/-- blockchain.go:2658 `GetCommitteeVotesThreshold` -/
def votesThreshold (cnt : Nat) (final : Bool) : Nat :=
  if cnt ≤ 1 then 1
  else if cnt ≤ 3 then 2
  else if cnt ≤ 5 then 3
  else if cnt ≤ 7 then 4
  else if cnt = 8 then 5
  else mulRound (committeeSize cnt final) mant065 sh065

/-- validators.go:462 `VotesCountSubtrahend(0.65)` for `v = |Original| - |ApprovedValidators|` -/
def subtrahend (v : Nat) : Nat := mulRound v mant065 sh065

/-- `types.Final = 255` (types.go:45) -/
def isFinal (step : Nat) : Bool := step == 255

/-! ## 2. The validators view (`ValidatorsCache`) loaded from the identity-state tree -/

/-- one record of the identity-state tree (`state.ApprovedIdentity`) -/
structure Ident where
  addr : Nat
  online : Bool
  validated : Bool
  discriminated : Bool
  delegatee : Option Nat
  deriving Repr, DecidableEq

structure Pool where
  delegators : List Nat      -- ascending (pool.add)
  approved : List Nat        -- set
  deriving Repr

structure View where
  god : Nat
  online : List Nat                 -- onlineAddresses
  validated : List Nat              -- validatedAddresses
  discriminated : List Nat          -- discriminatedAddresses
  delegations : List (Nat × Nat)    -- delegator ↦ delegatee
  pools : List (Nat × Pool)
  sorted : List Nat                 -- sortedValidators.list (descending)
  deriving Repr

def assocSet {β : Type} (k : Nat) (v : β) : List (Nat × β) → List (Nat × β)
  | [] => [(k, v)]
  | (k', v') :: t => if k' = k then (k, v) :: t else (k', v') :: assocSet k v t

/-- validators.go:476 `sortedAddresses.add`: `sort.Search` for the first index with `list[i] ≤ addr` on a descending
list (a linear scan finds the same index on a sorted list), no duplicates -/
def descInsert (a : Nat) : List Nat → List Nat
  | [] => [a]
  | x :: t => if x ≤ a then (if x = a then x :: t else a :: x :: t) else x :: descInsert a t

/-- validators.go:504 `pool.add` position: first index with `delegators[i] ≥ addr`, ascending -/
def ascInsert (a : Nat) : List Nat → List Nat
  | [] => [a]
  | x :: t => if a ≤ x then (if x = a then x :: t else a :: x :: t) else x :: ascInsert a t

/-- validators.go:504 `pool.add` -/
def poolAdd (p : Pool) (a : Nat) (approved : Bool) : Pool :=
  if p.delegators.contains a then p
  else { delegators := ascInsert a p.delegators, approved := if approved then p.approved.insert a else p.approved }

/-- validators.go:541 `pool.setApproved` -/
def poolSetApproved (p : Pool) (a : Nat) (approved : Bool) : Pool :=
  { p with approved := if approved then p.approved.insert a else p.approved.erase a }

structure LoadSt where
  v : View
  onlineNodes : List Nat
  deriving Repr

/-- validators.go:196-232: the callback of `IterateIdentities` for one tree record -/
def loadStep (st : LoadSt) (i : Ident) : LoadSt :=
  let v := st.v
  let v1 := if i.online then { v with online := v.online.insert i.addr } else v
  let nodes := if i.online then st.onlineNodes ++ [i.addr] else st.onlineNodes
  let v2 := match i.delegatee with
    | none => v1
    | some d =>
      let pool := match v1.pools.lookup d with
        | some p => p
        | none => { delegators := [], approved :=
            if v1.validated.contains d && !v1.discriminated.contains d then [d] else [] }
      let pool' := poolAdd pool i.addr (i.validated && !i.discriminated)
      { v1 with pools := assocSet d pool' v1.pools, delegations := assocSet i.addr d v1.delegations }
  let v3 := if i.validated then { v2 with validated := v2.validated.insert i.addr } else v2
  let v4 := if i.discriminated then { v3 with discriminated := v3.discriminated.insert i.addr } else v3
  let v5 := match v4.pools.lookup i.addr with
    | some p => { v4 with pools := assocSet i.addr (poolSetApproved p i.addr (i.validated && !i.discriminated)) v4.pools }
    | none => v4
  { v := v5, onlineNodes := nodes }

/-- validators.go:236-247 (and :341-352 in `UpdateFromIdentityStateDiff`, where `nodes` is an arbitrary
enumeration of the online set): build `sortedValidators` -/
def buildSorted (v : View) (nodes : List Nat) : List Nat :=
  nodes.foldl (fun s n =>
    let s1 := if v.validated.contains n then descInsert n s else s
    match v.pools.lookup n with
    | some p => p.delegators.foldl (fun s a => descInsert a s) s1
    | none => s1) []

def emptyView (god : Nat) : View :=
  { god := god, online := [], validated := [], discriminated := [], delegations := [], pools := [], sorted := [] }

/-- validators.go:186 `loadValidNodes`; `ids` = the tree records in ascending key order -/
def load (god : Nat) (ids : List Ident) : View :=
  let st := ids.foldl loadStep { v := emptyView god, onlineNodes := [] }
  { st.v with sorted := buildSorted st.v st.onlineNodes }

/-! ## 3. Committee draw -/

structure StepValidators where
  original : List Nat
  validators : List Nat
  approved : List Nat
  deriving Repr

def listToSet (l : List Nat) : List Nat := l.foldl (fun s a => s.insert a) []

/-- validators.go:58 `determineValidators`; `set` = an arbitrary enumeration (`set.ToSlice()`) of the drawn set -/
def determineStep (v : View) (acc : List Nat × List Nat) (addr : Nat) : List Nat × List Nat :=
  match v.delegations.lookup addr with
  | some d =>
    let vs := acc.1.insert d
    match v.pools.lookup d with
    | some p => if p.approved.isEmpty then (vs, acc.2) else (vs, acc.2.insert d)
    | none => (vs, acc.2)
  | none =>
    let vs := acc.1.insert addr
    if v.discriminated.contains addr then (vs, acc.2) else (vs, acc.2.insert addr)

def determineValidators (v : View) (set : List Nat) : List Nat × List Nat :=
  set.foldl (determineStep v) ([], [])

/-- validators.go:81 `GetOnlineValidators`; `perm` = `rand.Perm(len(sortedValidators))` for the derived seed.
`none` = the Go `nil` result. -/
def getOnlineValidators (v : View) (perm : List Nat) (limit : Nat) : Option StepValidators :=
  if v.online.length = 0 then some ⟨[v.god], [v.god], [v.god]⟩
  else if v.sorted.length = limit then
    let set := listToSet v.sorted
    let r := determineValidators v set
    some ⟨set, r.1, r.2⟩
  else if v.sorted.length < limit then none
  else
    let set := listToSet ((perm.take limit).map (fun i => v.sorted.getD i 0))
    let r := determineValidators v set
    some ⟨set, r.1, r.2⟩

/-- `GetCommitteeVotesThreshold(vc, final) - validators.VotesCountSubtrahend(0.65)` (blockchain.go:2450,
engine.go:511); an `int` in Go, can be `0` or `-1` -/
def required (sv : StepValidators) (thr : Nat) : Int :=
  (thr : Int) - (subtrahend (sv.original.length - sv.approved.length) : Int)

/-! ## 4. Certificate validation -/

/-- what a vote signature is computed over (types.go:706 `ToSignatureBytes`): all six header fields -/
structure Msg where
  round : Nat
  step : Nat
  parent : Nat
  voted : Nat
  off : Bool      -- TurnOffline
  upg : Nat       -- Upgrade
  deriving DecidableEq, Repr

structure CertSig (σ : Type) where
  off : Bool
  upg : Nat
  sig : σ
  deriving Repr

structure BlockCert (σ : Type) where
  round : Nat
  step : Nat
  voted : Nat
  sigs : List (CertSig σ)
  deriving Repr

inductive Verdict where
  | ok | invalidVoter | invalidRound | invalidHash | invalidParent | notEnough | panic
  deriving DecidableEq, Repr

/-- the header `ValidateBlockCert` rebuilds for one signature (blockchain.go:2407-2417) -/
def certMsg {σ : Type} (c : BlockCert σ) (prevHash : Nat) (s : CertSig σ) : Msg :=
  { round := c.round, step := c.step, parent := prevHash, voted := c.voted, off := s.off, upg := s.upg }

/-- blockchain.go:2405-2448, the loop over `cert.Signatures`; `useCache` = `pubKeyToAddrCache != nil`
(fast sync): a signature whose key recovery fails is then skipped (`continue`), otherwise its voter is the zero
address.  (The cache itself maps a recovered public key to its address and is transparent.) -/
def certLoop {σ : Type} (recover : σ → Msg → Option Nat) (appr : Nat → Bool) (useCache : Bool)
    (c : BlockCert σ) (prevHash blockHash height : Nat) : List (CertSig σ) → List Nat → Except Verdict (List Nat)
  | [], voters => .ok voters
  | s :: rest, voters =>
    let m := certMsg c prevHash s
    let r := recover s.sig m
    if useCache = true ∧ r = none then certLoop recover appr useCache c prevHash blockHash height rest voters
    else
      let addr := r.getD 0
      if appr addr = false then .error .invalidVoter
      else if m.round ≠ height then .error .invalidRound
      else if m.voted ≠ blockHash then .error .invalidHash
      else if m.parent ≠ prevHash then .error .invalidParent
      else certLoop recover appr useCache c prevHash blockHash height rest (voters.insert addr)

/-- `ValidateBlockCert` given the drawn committee (`none` = nil ⇒ nil dereference ⇒ panic) and the threshold -/
def validateCore {σ : Type} (recover : σ → Msg → Option Nat) (useCache : Bool) (sv : Option StepValidators)
    (thr : Nat) (c : BlockCert σ) (prevHash blockHash height : Nat) : Verdict :=
  match sv with
  | none => .panic
  | some sv =>
    match certLoop recover (fun a => sv.approved.contains a) useCache c prevHash blockHash height c.sigs [] with
    | .error e => e
    | .ok voters => if (voters.length : Int) < required sv thr then .notEnough else .ok

/-- blockchain.go:2398 `ValidateBlockCert(prevBlock, block, cert, validatorsCache, pubKeyToAddrCache)`:
`perm` is the permutation for `(prevBlock.Seed(), block.Height(), cert.Step)` -/
def validateBlockCert {σ : Type} (recover : σ → Msg → Option Nat) (useCache : Bool) (v : View) (perm : List Nat)
    (c : BlockCert σ) (prevHash blockHash height : Nat) : Verdict :=
  let final := isFinal c.step
  let cnt := v.sorted.length
  validateCore recover useCache (getOnlineValidators v perm (committeeSize cnt final)) (votesThreshold cnt final)
    c prevHash blockHash height

/-! ## 5. The vote counter -/

structure Vote (σ : Type) where
  round : Nat
  step : Nat
  parent : Nat
  voted : Nat
  off : Bool
  upg : Nat
  sig : σ
  deriving Repr

def Vote.msg {σ : Type} (v : Vote σ) : Msg :=
  { round := v.round, step := v.step, parent := v.parent, voted := v.voted, off := v.off, upg := v.upg }

/-- types.go:780 `VoterAddr`: the zero address when recovery fails -/
def voterAddr {σ : Type} (recover : σ → Msg → Option Nat) (v : Vote σ) : Nat := (recover v.sig v.msg).getD 0

/-- `roundVotes : map[Address]*Vote` -/
abbrev RoundVotes (σ : Type) := List (Nat × Vote σ)
/-- `byBlock : map[Hash]map[Address]*Vote` -/
abbrev ByBlock (σ : Type) := List (Nat × RoundVotes σ)

/-- engine.go:549-554: walk the (arbitrarily ordered) map, append until `len(list) >= need` -/
def takeUntil {α : Type} (need : Int) : List α → List α → List α
  | [], acc => acc
  | x :: t, acc =>
    let acc' := acc ++ [x]
    if (acc'.length : Int) ≥ need then acc' else takeUntil need t acc'

/-- outcome of the vote counter (of one callback / one poll / the whole loop) -/
inductive CountRes (σ : Type) where
  | none                                        -- nothing found (yet) / "votes for step is not received"
  | found (hash : Nat) (votes : List (Vote σ))  -- `bestHash`, `cert.Votes`
  | panic                                       -- `make([]*types.Vote, 0, necessaryVotesCount)` with a negative capacity
  deriving Repr

/-- engine.go:523-563: one invocation of the `m.Range` callback.  `iterOrder` is the (arbitrary) iteration order
of the Go map `roundVotes`.  Result: new `byBlock`, and `found bestHash cert.Votes` when the callback returns
`false`.  `need` is `necessaryVotesCount` after the subtraction; when it is negative and an approved vote arrives,
`make(…, 0, need)` panics (engine.go:547). -/
def visit {σ : Type} (recover : σ → Msg → Option Nat) (appr : Nat → Bool) (iterOrder : RoundVotes σ → RoundVotes σ)
    (step parentHash : Nat) (need : Int) (bb : ByBlock σ) (v : Vote σ) : ByBlock σ × CountRes σ :=
  let bb1 := match bb.lookup v.voted with
    | some _ => bb
    | none => assocSet v.voted [] bb
  let rv := (bb.lookup v.voted).getD []
  let a := voterAddr recover v
  if (rv.lookup a).isSome then (bb1, .none)
  else if v.parent ≠ parentHash then (bb1, .none)
  else if v.step ≠ step then (bb1, .none)
  else if appr a = false then (bb1, .none)
  else
    let rv' := assocSet a v rv
    let bb2 := assocSet v.voted rv' bb1
    if (rv'.length : Int) ≥ need then
      if need < 0 then (bb2, .panic)
      else
        let list := takeUntil need ((iterOrder rv').map (·.2)) []
        if (list.length : Int) ≥ need then (bb2, .found v.voted list) else (bb2, .none)
    else (bb2, .none)

/-- one `m.Range(...)` over an enumeration of the round's votes, stopping at the first `found` -/
def poll {σ : Type} (recover : σ → Msg → Option Nat) (appr : Nat → Bool) (iterOrder : RoundVotes σ → RoundVotes σ)
    (step parentHash : Nat) (need : Int) : ByBlock σ → List (Vote σ) → ByBlock σ × CountRes σ
  | bb, [] => (bb, .none)
  | bb, v :: rest =>
    match visit recover appr iterOrder step parentHash need bb v with
    | (bb', .none) => poll recover appr iterOrder step parentHash need bb' rest
    | (bb', r) => (bb', r)

/-- engine.go:513-571: the polling loop; `polls` = the enumerations `m.Range` produced at each wake-up until the
timeout (`byBlock` persists between them) -/
def countLoop {σ : Type} (recover : σ → Msg → Option Nat) (appr : Nat → Bool) (iterOrder : RoundVotes σ → RoundVotes σ)
    (step parentHash : Nat) (need : Int) : ByBlock σ → List (List (Vote σ)) → CountRes σ
  | _, [] => .none
  | bb, enum :: more =>
    match poll recover appr iterOrder step parentHash need bb enum with
    | (bb', .none) => countLoop recover appr iterOrder step parentHash need bb' more
    | (_, r) => r

/-- engine.go:495 `countVotes` given the drawn committee (`none` ⇒ "validators were not setup") -/
def countVotes {σ : Type} (recover : σ → Msg → Option Nat) (iterOrder : RoundVotes σ → RoundVotes σ)
    (sv : Option StepValidators) (thr : Nat) (step parentHash : Nat) (polls : List (List (Vote σ))) : CountRes σ :=
  match sv with
  | none => .none
  | some sv => countLoop recover (fun a => sv.approved.contains a) iterOrder step parentHash (required sv thr) [] polls

/-- types.go:1009 `FullBlockCert.Compress` -/
def compress {σ : Type} (vs : List (Vote σ)) : BlockCert σ :=
  match vs with
  | [] => { round := 0, step := 0, voted := 0, sigs := [] }
  | v :: _ => { round := v.round, step := v.step, voted := v.voted,
                sigs := vs.map (fun x => { off := x.off, upg := x.upg, sig := x.sig }) }

/-! ## 6. Vote admission (`pengings/votes.go:54`) -/

structure VoteStore (σ : Type) where
  known : List (Msg × Nat)               -- knownVotes: `vote.Hash()` = H(signature hash ‖ voter), i.e. (msg, voter)
  byRound : List (Nat × List (Vote σ))   -- votesByRound (insertion order kept as the canonical enumeration)

def VoteStore.empty {σ : Type} : VoteStore σ := { known := [], byRound := [] }

def VoteStore.votesOf {σ : Type} (st : VoteStore σ) (round : Nat) : List (Vote σ) := (st.byRound.lookup round).getD []

/-- votes.go:54 `AddVote` (`VotesLag = 3`, `PropagateFutureVotesPeriod = 30`; fewer than `MaxKnownVotes = 10000`
known votes, so no eviction) -/
def addVote {σ : Type} (recover : σ → Msg → Option Nat) (online : List Nat) (headHeight : Nat)
    (st : VoteStore σ) (v : Vote σ) : VoteStore σ × Bool :=
  if headHeight > 3 ∧ v.round < headHeight - 3 then (st, false)
  else if headHeight < v.round ∧ v.round - headHeight > 30 then (st, false)
  else
    let a := voterAddr recover v
    if st.known.contains (v.msg, a) then (st, false)
    else if online.length > 0 ∧ online.contains a = false then (st, false)
    else
      ({ known := (v.msg, a) :: st.known,
         byRound := assocSet v.round (st.votesOf v.round ++ [v]) st.byRound }, true)

end IdenaModel.Cert
