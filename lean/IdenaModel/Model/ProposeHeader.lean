import IdenaModel.Model.BlockValidate
/-
M-ProposeHeader (C02): the header `ProposeBlock` (blockchain.go:1989) fills in, in the vocabulary of M-BlockValidate: every
derived field comes from the function the validator recomputes it with; the time is the head's time plus `MinBlockDelay`
or the proposer's clock when that is later.  Core Lean only.
-/
namespace IdenaModel.BlockValidate

/-- the proposer's free inputs: its key with VRF output and proof on the head's seed, the offline report, the upgrade
bits, the body it selected, its clock -/
structure Choice where
  key : Nat
  proof : Nat
  seed : Nat
  offline : Nat
  upgrade : Nat
  body : Nat
  nowP : Nat

/-- `newBlockTime`: the head's time plus `MinBlockDelay`, or the local time when that is later -/
def proposeTime (c : Ctx) (nowP : Nat) : Nat :=
  if nowP > c.prevTime + c.minDelay then nowP else c.prevTime + c.minDelay

/-- the header as filled in by `ProposeBlock`; `ex` is what processTxs/applyBlockOnState/calculateFlags/calculateTxBloom gave
the proposer on its own check state: (bloom, flags, root, identityRoot, receiptsCid) -/
def proposeHeader (c : Ctx) (ch : Choice) (ex : Nat × Nat × Nat × Nat × Nat) : Hdr
  | .parentHash => c.prevHash
  | .height => c.prevHeight + 1
  | .time => proposeTime c ch.nowP
  | .txHash => c.txHashOf ch.body
  | .proposerPubKey => ch.key
  | .root => ex.2.2.1
  | .identityRoot => ex.2.2.2.1
  | .flags => ex.2.1
  | .ipfsHash => c.cidOf ch.body
  | .offlineAddr => ch.offline
  | .txBloom => ex.1
  | .blockSeed => ch.seed
  | .feePerGas => c.stateFee
  | .upgrade => ch.upgrade
  | .seedProof => ch.proof
  | .txReceiptsCid => ex.2.2.2.2

/-- the validator of the clock probe: everything but the times is trivially consistent -/
def clockCtx (prevTime nowV : Nat) : Ctx :=
  { prevHash := 0, prevHeight := 0, prevTime := prevTime, now := nowV, minDelay := 10, maxFuture := 120, stateFee := 0,
    eligible := fun _ => true, keyValid := fun _ => true, vrf := fun _ _ => some 0, upgradeOk := fun _ => true,
    txHashOf := fun _ => 0, cidOf := fun _ => 0, exec := fun _ _ _ _ => some (0, 0, 0, 0, 0) }

end IdenaModel.BlockValidate
