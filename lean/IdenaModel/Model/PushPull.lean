/-
M-PushPull (C20): the push/pull bookkeeping of a node, as one sequential state machine.

  * manager  = `protocol/pushpull.go`  (`PushPullManager.addPush`, `.loop`, `.AddEntry`)
  * tracker  = `common/pushpull/tracker.go` (`DefaultPushTracker`: `activePulls`, `pendingPushes` sorted by pull time,
               `pullDelay`, `maxPendingPushes`, goroutines `loop` and `gc`)
  * holder   = `common/pushpull/holder.go` (`DefaultHolder`: a go-cache; expiry of an entry is the explicit event `expire`)

Time is logical (`Nat`, milliseconds since the tracker was started).  The clock only moves by the event `tick`.
The two tracker goroutines are explicit: `loop` performs ONE iteration of `for { … }` of `DefaultPushTracker.loop`
(or wakes it up when its sleep is over), `gc` one pass of `DefaultPushTracker.gc`; every other event may be
interleaved between two iterations.  The manager's relay goroutine (`PushPullManager.loop`) is the event `deliver`.

`Cfg.asFound = true` is the loop as it was before /repo commit fc3fdbe1 (after its sleep it acted on index 0 of the
list without looking again); `false` is the current code (after the sleep it `continue`s and peeks again).

Core Lean only.
-/
namespace IdenaModel.PushPull

/-! ### association lists (`sync.Map`, go-cache) -/

abbrev Map := List (Nat × Nat)

def lookup : Map → Nat → Option Nat
  | [], _ => none
  | (k, v) :: m, x => if k = x then some v else lookup m x

def erase : Map → Nat → Map
  | [], _ => []
  | (k, v) :: m, x => if k = x then erase m x else (k, v) :: erase m x

def set (m : Map) (k v : Nat) : Map := (k, v) :: erase m k

/-! ### state -/

structure Cfg where
  /-- `pullDelay` (tracker.go:37), ms -/
  delay : Nat
  /-- `holder.MaxParallelPulls()` (holder.go:81: 3; txpool.go:122, keyspool.go:156: 1) -/
  cap : Nat
  /-- `maxPendingPushes` (tracker.go:12) -/
  maxPending : Nat
  /-- the loop of tracker.go before commit fc3fdbe1 -/
  asFound : Bool := false

/-- `pendingRequestTime` (tracker.go:21) -/
structure Entry where
  peer : Nat
  hash : Nat
  time : Nat
  deriving DecidableEq, Repr

/-- where the goroutine `loop` is -/
inductive Pc where
  /-- at the top of `for {` -/
  | run
  /-- inside `time.Sleep`, after which it `continue`s (tracker.go:101 and, current code, :107) -/
  | sleep (wake : Nat)
  /-- as found only: inside `time.Sleep(d.pullDelay - since)` holding the peeked `obj`, after which it went on with
      the rest of the iteration without peeking again -/
  | hold (obj : Entry) (wake : Nat)
  deriving DecidableEq, Repr

/-- observable outputs -/
inductive Out where
  /-- `addPush` → `makeRequest` (pushpull.go:66, :85): pull request sent at once -/
  | imm (p h t : Nat)
  /-- tracker loop: `d.requests <- obj.req` (tracker.go:139): deferred pull request issued -/
  | dec (p h t : Nat)
  /-- manager loop: `makeRequest` for a request taken from the tracker (pushpull.go:122) -/
  | fwd (p h t : Nat)
  deriving DecidableEq, Repr

def Out.hash : Out → Nat
  | .imm _ h _ => h | .dec _ h _ => h | .fwd _ h _ => h

def Out.time : Out → Nat
  | .imm _ _ t => t | .dec _ _ t => t | .fwd _ _ t => t

structure St where
  now : Nat := 0
  /-- hashes in the holder's cache (`DefaultHolder.entryCache`) -/
  held : List Nat := []
  /-- manager: `pendingPushes` cache, hash ↦ `cnt` (pushpull.go:14) -/
  cnt : Map := []
  /-- tracker: `activePulls`, hash ↦ time of the last registered pull -/
  active : Map := []
  /-- tracker: `pendingPushes.list` -/
  pending : List Entry := []
  /-- tracker: content of the channel `requests` (peer, hash), oldest first -/
  queue : List (Nat × Nat) := []
  pc : Pc := .run
  /-- end of the current `time.Sleep(time.Minute)` of goroutine `gc` -/
  gcWake : Nat := 60000
  /-- `Remove(0)` / `list[0]` on an empty list (a Go run-time panic) -/
  panicked : Bool := false

inductive Ev where
  /-- peer `p` announces hash `h` (a `Push` message: gossip.go:409 → `addPush`) -/
  | announce (p h : Nat)
  /-- the item arrives / is produced (`AddEntry` → `holder.Add`) -/
  | arrive (h : Nat)
  /-- the clock reaches `t` -/
  | tick (t : Nat)
  /-- one scheduling slot of goroutine `DefaultPushTracker.loop` -/
  | loop
  /-- one scheduling slot of goroutine `DefaultPushTracker.gc` -/
  | gc
  /-- one scheduling slot of goroutine `PushPullManager.loop` -/
  | deliver
  /-- the holder's cache entry for `h` expires -/
  | expire (h : Nat)
  /-- the manager's counter for `h` expires -/
  | forget (h : Nat)
  deriving DecidableEq, Repr

/-! ### tracker -/

/-- `sortedPendingPushes.Add` (tracker.go:163): in front of the first entry with a later time.
(`sort.Search` finds that index because the list is sorted — theorem `pending_sorted`.) -/
def insertSorted (e : Entry) : List Entry → List Entry
  | [] => [e]
  | x :: xs => if e.time < x.time then e :: x :: xs else x :: insertSorted e xs

/-- `DefaultPushTracker.AddPendingPush` (tracker.go:79) -/
def addPending (c : Cfg) (s : St) (p h : Nat) : St :=
  if s.held.contains h || decide (s.pending.length > c.maxPending) then s
  else match lookup s.active h with
    | some t => { s with pending := insertSorted ⟨p, h, t⟩ s.pending }
    | none => s

/-- `Remove(0)` -/
def removeHead (s : St) : St :=
  match s.pending with
  | [] => { s with panicked := true }
  | _ :: rest => { s with pending := rest }

/-- `MoveWithNewTime(0, t)` (tracker.go:192): takes `req` from `list[0]` -/
def moveHead (s : St) (t : Nat) : St :=
  match s.pending with
  | [] => { s with panicked := true }
  | x :: rest => { s with pending := insertSorted { x with time := t } rest }

/-- the rest of an iteration once `obj` is due (tracker.go:110-141); removals act on index 0 -/
def afterWake (s : St) (obj : Entry) : St × List Out :=
  if s.held.contains obj.hash then (removeHead s, [])
  else match lookup s.active obj.hash with
    | none => (removeHead s, [])
    | some t =>
      if t > obj.time then (moveHead s t, [])
      else
        let s1 := removeHead s
        ({ s1 with queue := s1.queue ++ [(obj.peer, obj.hash)], active := set s1.active obj.hash s1.now },
         [.dec obj.peer obj.hash s1.now])

/-- one scheduling slot of goroutine `loop` -/
def loopStep (c : Cfg) (s : St) : St × List Out :=
  match s.pc with
  | .sleep w => if w ≤ s.now then ({ s with pc := .run }, []) else (s, [])
  | .hold obj w => if w ≤ s.now then afterWake { s with pc := .run } obj else (s, [])
  | .run =>
    match s.pending with
    | [] => ({ s with pc := .sleep (s.now + 10) }, [])
    | obj :: _ =>
      if s.now < obj.time + c.delay then
        ({ s with pc := if c.asFound then .hold obj (obj.time + c.delay) else .sleep (obj.time + c.delay) }, [])
      else afterWake s obj

/-- one pass of goroutine `gc` (tracker.go:145): pulls registered more than 5 minutes ago are forgotten -/
def gcStep (s : St) : St :=
  if s.gcWake ≤ s.now then
    { s with active := s.active.filter (fun kv => !decide (s.now - kv.2 > 300000)), gcWake := s.now + 60000 }
  else s

/-! ### manager -/

/-- `PushPullManager.addPush` (pushpull.go:45) -/
def announce (c : Cfg) (s : St) (p h : Nat) : St × List Out :=
  if s.held.contains h then (s, [])
  else match lookup s.cnt h with
    | none =>
      ({ s with cnt := set s.cnt h 1, active := set s.active h s.now }, [.imm p h s.now])
    | some n =>
      let s1 := { s with cnt := set s.cnt h (n + 1) }
      if n + 1 ≥ c.cap then (addPending c s1 p h, [])
      else ({ s1 with active := set s1.active h s1.now }, [.imm p h s1.now])

/-- `AddEntry` → `DefaultHolder.Add` (holder.go:50) → `RemovePull` -/
def arrive (s : St) (h : Nat) : St :=
  { s with held := if s.held.contains h then s.held else h :: s.held, active := erase s.active h }

/-- one item through `PushPullManager.loop` (pushpull.go:119) -/
def deliver (s : St) : St × List Out :=
  match s.queue with
  | [] => (s, [])
  | (p, h) :: q => ({ s with queue := q, active := set s.active h s.now }, [.fwd p h s.now])

def step (c : Cfg) (s : St) : Ev → St × List Out
  | .announce p h => announce c s p h
  | .arrive h => (arrive s h, [])
  | .tick t => (if s.now ≤ t then { s with now := t } else s, [])
  | .loop => loopStep c s
  | .gc => (gcStep s, [])
  | .deliver => deliver s
  | .expire h => ({ s with held := s.held.filter (· != h) }, [])
  | .forget h => ({ s with cnt := erase s.cnt h }, [])

def run (c : Cfg) : St → List Ev → St × List Out
  | s, [] => (s, [])
  | s, e :: es =>
    let r1 := step c s e
    let r2 := run c r1.1 es
    (r2.1, r1.2 ++ r2.2)

def init : St := {}

/-! ### several entry types on one manager

The node registers one holder (with its own tracker) per entry type before `PushPullManager.Run` (gossip.go:113-118).
The manager's counters are keyed by type + hash (`pushPullHash.String`), each tracker is drained by its own relay
goroutine `loop(entryType, holder)`, so the types ("lanes") share nothing but the clock; every pull request put on the
wire carries the type of the lane that produced it (`addPush`: the announced `hash.Type`; `loop`: its `entryType`). -/

structure Lane where
  typ : Nat
  cfg : Cfg
  st : St

abbrev Node := List Lane

/-- an event addressed to the lane of type `typ`; outputs are tagged with the push type they carry on the wire -/
def laneStep (typ : Nat) (e : Ev) : Node → Node × List (Nat × Out)
  | [] => ([], [])
  | l :: rest =>
    if l.typ = typ then
      let r := step l.cfg l.st e
      ({ l with st := r.1 } :: rest, r.2.map (fun o => (l.typ, o)))
    else
      let r := laneStep typ e rest
      (l :: r.1, r.2)

/-- `tick` moves the one clock all trackers read; any other event concerns one lane -/
def nodeStep (n : Node) (typ : Nat) (e : Ev) : Node × List (Nat × Out) :=
  match e with
  | .tick _ => (n.map (fun l => { l with st := (step l.cfg l.st e).1 }), [])
  | _ => laneStep typ e n

end IdenaModel.PushPull
