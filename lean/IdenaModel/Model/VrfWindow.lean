/-
M-VrfWindow (C01 next-block parameters, C03 state transition): the sliding window of empty-block bits that drives the VRF
proposer threshold.  `stateGlobal.AddBlockBit` / `EmptyBlocksCount` (core/state/state_object.go:1374, 1386) on a `big.Int`
and the case table of `applyVrfProposerThreshold` (blockchain.go:1814).  The threshold value itself is float64 arithmetic
(`max(min, min(cur ± (max-min)/60, max))`) and is not modelled; the direction of the move is.
Core Lean only.
-/
namespace IdenaModel.VrfWindow

/-- `state.EmptyBlocksBitsSize` -/
def size : Nat := 25

/-- `AddBlockBit`: shift left, set bit 0 for a non-empty block, clear bit `size` (only that bit, as written) -/
def addBit (w : Nat) (empty : Bool) : Nat :=
  let x := w * 2 + (if empty then 0 else 1)
  if x.testBit size then x - 2 ^ size else x

/-- `EmptyBlocksCount`: zero bits among the low `size` bits -/
def emptyCount (w : Nat) : Nat := ((List.range size).filter (fun i => !w.testBit i)).length

/-- the case table of `applyVrfProposerThreshold`: +1 raise by a step, 0 keep, −1 lower by a step (before clamping) -/
def dir (cnt : Nat) : Int := if cnt = 0 then 1 else if cnt ≤ 2 then 0 else -1

/-- the window after a history of blocks (oldest first; `true` = empty block), from a genesis state without the field -/
def window (hist : List Bool) : Nat := hist.foldl addBit 0

end IdenaModel.VrfWindow
