/-
M-SyncArtifacts (C11): the two artifacts a node hands to a fast-syncing peer.

Part A — identity diffs.  `IdentityStateDB.Precommit` (core/state/identity_statedb.go:181) walks the dirty live
objects in `getOrderedObjectsKeys` order (statedb.go:1457: descending address bytes), writes each to the IAVL tree
(`tree.Remove` for an empty object, `tree.Set(key, data.ToBytes())` otherwise) and records exactly that operation
as one `IdentityStateDiffValue`.  `AddDiff` (:364) replays a diff: no-op when empty, else
`SetVirtualVersion(height-1)` and one `Remove`/`Set(key, value)` per entry.  `WriteIdentityStateDiff`
(blockchain/blockchain.go:2874) stores a non-empty diff under its height; for an empty one the code as found wrote
nothing (finding F5), the repaired code deletes what is stored at that height.  `ResetTo` (:2715) never touches the
stored diffs; fast sync's applier writes through the same `WriteIdentityStateDiff` (event `sync`).  Fast sync (protocol/fast.go:295 `validateIdentityState`, :150 `CommitTree` for non-empty diffs only)
replays the served diffs on a copy of the identity state and compares the root with each header.

The IAVL root depends on the insertion history and on the version stamped into every written node (node.go:291
`writeHashBytes` hashes height, size, version, …), not only on the contents.  The model therefore keeps the tree as
its *operation log* (each operation stamped with the working version) and takes the root as an arbitrary function
`R` of that log: everything proved for all `R` holds in particular for the real hash.  Contents (what getters and
iteration see) are the fold of the log over a sorted association list.

Part B — snapshots.  `WriteTreeTo2` / `ReadTreeFrom2` (core/state/util.go:38,103) over the third-party IAVL
exporter / importer (export.go, import.go of the pinned fork) and a tar of protobuf chunks.  Modelled: the node list in
exporter order (depth-first post-order), the wire form of a node (proto3 bytes: nil and empty coincide, hence the
`EmptyValue` flag; `Height` uint32 → int8, `Version` uint64 → int64), chunking by `SnapshotBlockSize`, the importer's
stack machine clause by clause (`Importer.Add`: version bound, child selection by heights, `_hash()` *before*
`validate()` — an inner node that did not get two children panics there, import.go:116 / node.go:323), `Commit`
(stack size 0 / 1 / else error), root comparison, and the clean-up on every error path.  The node hash is a parameter
(`HashFns`); as in IAVL it covers a leaf's key, value and version and an inner node's height, size, version and child
hashes — **not** an inner node's key.  tar and protobuf decoding are third party: the model starts from the decoded
node list plus a flag "a later chunk failed to decode".

`fixed` selects the repaired behaviour (`true`) or the behaviour of the code as found (`false`) where they differ:
`writeDiff` (F5); `ReadTreeFrom2` (stop on `Importer.Add` error, recover from importer panics, verify inner-node
keys); `validateIdentityState` (refuse a diff entry that neither deletes nor carries a value).

Core Lean only.
-/
namespace IdenaModel.Sync

abbrev Bytes := List Nat

/-! ## Part A — identity diffs -/

/-- contents of the identity tree: strictly ascending association list -/
abbrev KV := List (Nat × Bytes)

def kvSet : KV → Nat → Bytes → KV
  | [], k, v => [(k, v)]
  | (k', v') :: t, k, v =>
    if k < k' then (k, v) :: (k', v') :: t
    else if k = k' then (k, v) :: t
    else (k', v') :: kvSet t k v

def kvDel : KV → Nat → KV
  | [], _ => []
  | (k', v') :: t, k => if k = k' then t else (k', v') :: kvDel t k

/-- what reaches IAVL: `Set` / `Remove` under working version `ver` -/
inductive TOp where
  | set (ver k : Nat) (v : Bytes)
  | remove (ver k : Nat)
  deriving DecidableEq, Repr

def TOp.apply (m : KV) : TOp → KV
  | .set _ k v => kvSet m k v
  | .remove _ k => kvDel m k

/-- the identity tree: saved (or virtual) version + the log of operations since the empty tree -/
structure ITree where
  version : Nat
  log : List TOp
  deriving DecidableEq, Repr

def contentsOf (log : List TOp) : KV := log.foldl TOp.apply []
def ITree.contents (t : ITree) : KV := contentsOf t.log
/-- `tree.Set` (mutable_tree.go:141: new nodes get `tree.version + 1`) -/
def ITree.set (t : ITree) (k : Nat) (v : Bytes) : ITree := { t with log := t.log ++ [.set (t.version + 1) k v] }
def ITree.remove (t : ITree) (k : Nat) : ITree := { t with log := t.log ++ [.remove (t.version + 1) k] }
def ITree.setVirtualVersion (t : ITree) (v : Nat) : ITree := { t with version := v }
def ITree.saveVersionAt (t : ITree) (v : Nat) : ITree := { t with version := v }
/-- the root hash: a function `R : List TOp → ρ` of the operation history (parameter; any codomain) -/
def ITree.root {ρ : Type} (R : List TOp → ρ) (t : ITree) : ρ := R t.log

/-- `IdentityStateDiffValue` in wire form (proto3: a missing and an empty `Value` coincide) -/
structure DVal where
  addr : Nat
  deleted : Bool
  value : Bytes
  deriving DecidableEq, Repr

abbrev Diff := List DVal

/-- a dirty live object at `Precommit` time; `enc` = `data.ToBytes()` (protobuf, a parameter) -/
structure DObj where
  addr : Nat
  validated : Bool
  online : Bool
  enc : Bytes
  deriving DecidableEq, Repr

/-- `stateApprovedIdentity.empty` (state_object.go:1606) -/
def DObj.empty (o : DObj) : Bool := !o.validated && !o.online

/-- `getOrderedObjectsKeys` (statedb.go:1457): descending address bytes -/
def orderObjs (l : List DObj) : List DObj := l.mergeSort (fun a b => decide (a.addr ≥ b.addr))

/-- one iteration of the loop of `Precommit` (identity_statedb.go:186-203) -/
def precommitStep (acc : ITree × Diff) (o : DObj) : ITree × Diff :=
  if o.empty then (acc.1.remove o.addr, acc.2 ++ [⟨o.addr, true, []⟩])
  else (acc.1.set o.addr o.enc, acc.2 ++ [⟨o.addr, false, o.enc⟩])

def precommitOrdered (t : ITree) (objs : List DObj) : ITree × Diff := objs.foldl precommitStep (t, [])

def precommit (t : ITree) (dirty : List DObj) : ITree × Diff := precommitOrdered t (orderObjs dirty)

/-- the loop of `AddDiff` (identity_statedb.go:371-378); `none` = the panic of `tree.Set(key, nil)`
(mutable_tree.go:142 "Attempt to store nil value") -/
def addDiffVals : ITree → Diff → Option ITree
  | t, [] => some t
  | t, v :: vs =>
    if v.deleted then addDiffVals (t.remove v.addr) vs
    else if v.value = [] then none
    else addDiffVals (t.set v.addr v.value) vs

/-- `AddDiff(height, diff)` (identity_statedb.go:364) -/
def addDiff (t : ITree) (height : Nat) (d : Diff) : Option ITree :=
  if d = [] then some t else addDiffVals (t.setVirtualVersion (height - 1)) d

/-- the repository's `identityStateDiffKey(height)` records; `[]` = nothing stored (`GetIdentityDiff` = nil) -/
abbrev DiffStore := Nat → Diff

/-- `WriteIdentityStateDiff` (blockchain.go:2874) -/
def writeDiff (fixed : Bool) (s : DiffStore) (h : Nat) (d : Diff) : DiffStore :=
  if d ≠ [] then fun x => if x = h then d else s x
  else if fixed then fun x => if x = h then [] else s x    -- RemoveIdentityStateDiff
  else s

/-- one canonical block as far as identity sync is concerned -/
structure Rec (ρ : Type) where
  diff : Diff      -- what block execution (Precommit of the check state) produced
  idRoot : ρ       -- header.IdentityRoot
  tree : ITree     -- the node's identity tree after the block

/-- the serving node: genesis at height `base`, canonical records for heights base+1 …, the stored diffs -/
structure Node (ρ : Type) where
  base : Nat
  genesis : ITree
  chain : List (Rec ρ)
  stored : DiffStore

variable {ρ : Type} [DecidableEq ρ]

def Node.head (n : Node ρ) : Nat := n.base + n.chain.length

def Node.recAt (n : Node ρ) (h : Nat) : Option (Rec ρ) := if h ≤ n.base then none else n.chain[h - n.base - 1]?

def Node.treeAt (n : Node ρ) (h : Nat) : ITree := ((n.recAt h).map (·.tree)).getD n.genesis

inductive Ev (ρ : Type) where
  | add (dirty : List DObj)   -- a block whose execution leaves these identity objects dirty
  | reset (k : Nat)           -- `ResetTo(k)`
  | sync (d : Diff) (r : ρ)   -- the next block arrives by fast sync: served diff + header identity root

/-- `AddBlock` (blockchain.go:428-459) / `ResetTo` (:2715) restricted to the identity state and the stored diffs.
`ValidateBlock` runs `Precommit` on a check state loaded at the head version; `AddBlock` replays the diff on the
node's own tree, compares the root with the header, `CommitTrees`, `insertBlock` → `WriteIdentityStateDiff`. -/
def Node.step (R : List TOp → ρ) (fixed : Bool) (n : Node ρ) : Ev ρ → Node ρ
  | .add dirty =>
    let h := n.head + 1
    let prev := n.treeAt n.head
    let pc := precommit prev dirty
    let idRoot := pc.1.root R
    match addDiff prev h pc.2 with
    | none => n                                   -- crash
    | some t' =>
      if t'.root R ≠ idRoot then n                -- "invalid block identity root"
      else { n with chain := n.chain ++ [⟨pc.2, idRoot, t'.saveVersionAt h⟩],
                    stored := writeDiff fixed n.stored h pc.2 }
  | .reset k =>
    if n.base ≤ k ∧ k ≤ n.head then { n with chain := n.chain.take (k - n.base) } else n
  | .sync d r =>
    -- fastSync.applyDeferredBlocks (fast.go:137-167): validateIdentityState on the preliminary identity state,
    -- AddHeaderUnsafe (canonical hash of the height), WriteIdentityStateDiff — for an empty diff too.
    -- (the tree is recorded as saved at the height: SaveForcedVersion at the end of the sync, fast.go:366)
    let h := n.head + 1
    match addDiff (n.treeAt n.head) h d with
    | none => n
    | some t' =>
      if t'.root R ≠ r then n                      -- "identity root is invalid"
      else { n with chain := n.chain ++ [⟨d, r, t'.saveVersionAt h⟩], stored := writeDiff fixed n.stored h d }

def Node.run (R : List TOp → ρ) (fixed : Bool) : Node ρ → List (Ev ρ) → Node ρ
  | n, [] => n
  | n, e :: es => Node.run R fixed (n.step R fixed e) es

def Node.init (base : Nat) (genesis : ITree) : Node ρ :=
  { base := base, genesis := { genesis with version := base }, chain := [], stored := fun _ => [] }

/-- the end of a fast sync, `AtomicSwitchToPreliminary` (blockchain.go:3035-3063): the state-db prefix of the imported
snapshot, the identity-db prefix, the head and the removal of the preliminary head (and consensus version /
intermediate genesis) all go into ONE batch written by a single `WriteSync`: the switch is one atomic write group, a
node that dies is either entirely before or entirely after it. -/
def switchWriteGroups : Nat := 1

/-- the identity state lives under a db prefix that encodes a height (keys.go:147 `buildDbPrefix`, injective): 0 for a
node that started from genesis, `G` after a snapshot import `CommitSnapshot(G)` (identity_statedb.go:479), the prefix
of the preliminary copy after a completed fast sync (`SwitchToPreliminary`, :391).  `CreatePreliminaryCopy(head)`
(:427) copies the live database to the prefix of `head + 1`. -/
def prelimPrefixHeight (head : Nat) : Nat := head + 1

/-- a diff entry that neither deletes nor carries a value -/
def Diff.malformed (d : Diff) : Bool := d.any (fun v => !v.deleted && decide (v.value = []))

inductive FsOut where
  | acc (t : ITree)
  | rej
  | panic
  deriving DecidableEq, Repr

/-- `fastSync.validateIdentityState` (fast.go:295) followed by `CommitTree` for a non-empty diff (:150).
`rej` = "identity root is invalid" (state reset to the last saved version, peer banned). -/
def validateIdentityState (fixed : Bool) (R : List TOp → ρ) (t : ITree) (h : Nat) (d : Diff) (idRoot : ρ) : FsOut :=
  if fixed && d.malformed then .rej else
  match addDiff t h d with
  | none => .panic
  | some t' => if R t'.log = idRoot then .acc (if d = [] then t' else t'.saveVersionAt h) else .rej

/-- replay of the served (diff, header root) pairs for heights h+1, h+2, … -/
def fsReplay (fixed : Bool) (R : List TOp → ρ) : ITree → Nat → List (Diff × ρ) → FsOut
  | t, _, [] => .acc t
  | t, h, (d, r) :: rest =>
    match validateIdentityState fixed R t (h + 1) d r with
    | .acc t' => fsReplay fixed R t' (h + 1) rest
    | o => o

/-- what `provideBlocks` serves for the canonical heights base+1 … head -/
def servedFrom (stored : DiffStore) : Nat → List (Rec ρ) → List (Diff × ρ)
  | _, [] => []
  | h, r :: rs => (stored (h + 1), r.idRoot) :: servedFrom stored (h + 1) rs

def Node.served (n : Node ρ) : List (Diff × ρ) := servedFrom n.stored n.base n.chain

/-! ## Part B — snapshots -/

/-- `SnapshotBlockSize` (util.go:19) -/
def snapshotBlockSize : Nat := 10000
/-- `maxBatchSize` of the importer (import.go:12) -/
def maxBatchSize : Nat := 10000

/-- `chunksAux fuel n l`: consecutive blocks of `n` elements (the last one shorter) -/
def chunksAux {α : Type} : Nat → Nat → List α → List (List α)
  | 0, _, _ => []
  | fuel + 1, n, l => if l = [] then [] else l.take n :: chunksAux fuel n (l.drop n)

def chunks {α : Type} (n : Nat) (l : List α) : List (List α) := chunksAux l.length n l

/-- `iavl.ExportNode` (Go nil-ness kept: `none` = nil) -/
structure ENode where
  key : Option Bytes
  value : Option Bytes
  version : Int
  height : Int
  deriving DecidableEq, Repr

/-- `ProtoSnapshotNodes_Node` after protobuf decoding -/
structure WNode where
  key : Option Bytes
  height : Nat        -- uint32
  value : Option Bytes
  version : Nat       -- uint64
  emptyValue : Bool
  deriving DecidableEq, Repr

/-- proto3 bytes field written by an honest encoder and read back: empty and nil both come back as nil -/
def wireBytes : Option Bytes → Option Bytes
  | some (x :: xs) => some (x :: xs)
  | _ => none

def toInt8 (n : Nat) : Int := if n % 256 < 128 then (n % 256 : Nat) else ((n % 256 : Nat) : Int) - 256
def toInt64 (n : Nat) : Int :=
  if n % 18446744073709551616 < 9223372036854775808 then (n % 18446744073709551616 : Nat)
  else ((n % 18446744073709551616 : Nat) : Int) - 18446744073709551616

/-- util.go:74-80 (export side) -/
def toWire (n : ENode) : WNode :=
  { key := wireBytes n.key, height := n.height.toNat, value := wireBytes n.value, version := n.version.toNat,
    emptyValue := decide (n.value = some []) }

/-- util.go:138-149 (import side) -/
def fromWire (w : WNode) : ENode :=
  { key := w.key, value := if w.emptyValue then some [] else w.value, version := toInt64 w.version, height := toInt8 w.height }

/-- the Merkle tree as the importer builds it (sizes and hashes are functions of it) -/
inductive MTree where
  | leaf (key value : Bytes) (version : Int)
  | inner (key : Bytes) (height version : Int) (l r : MTree)
  deriving DecidableEq, Repr

def MTree.height : MTree → Int
  | .leaf .. => 0
  | .inner _ h _ _ _ => h

def MTree.size : MTree → Nat
  | .leaf .. => 1
  | .inner _ _ _ l r => l.size + r.size

def MTree.nodeCount : MTree → Nat
  | .leaf .. => 1
  | .inner _ _ _ l r => l.nodeCount + r.nodeCount + 1

/-- exporter order: depth-first post-order (export.go:52 `traversePost`) -/
def exportTree : MTree → List ENode
  | .leaf k v ver => [⟨some k, some v, ver, 0⟩]
  | .inner k h ver l r => exportTree l ++ exportTree r ++ [⟨some k, none, ver, h⟩]

def exportOpt : Option MTree → List ENode
  | none => []
  | some t => exportTree t

/-- the entries iteration yields (ascending leaves) -/
def MTree.leaves : MTree → List (Bytes × Bytes)
  | .leaf k v _ => [(k, v)]
  | .inner _ _ _ l r => l.leaves ++ r.leaves

def bytesLt : Bytes → Bytes → Bool
  | [], [] => false
  | [], _ :: _ => true
  | _ :: _, [] => false
  | a :: as, b :: bs => if a < b then true else if b < a then false else bytesLt as bs

/-- point lookup (node.go `get`): routed by the keys of inner nodes -/
def MTree.get : MTree → Bytes → Option Bytes
  | .leaf k v _, q => if q = k then some v else none
  | .inner k _ _ l r, q => if bytesLt q k then l.get q else r.get q

def MTree.minKey : MTree → Bytes
  | .leaf k _ _ => k
  | .inner _ _ _ l _ => l.minKey

/-- what the repaired `ReadTreeFrom2` verifies after the import (`validateInnerKeys`; the Go code does it with a
stack over the post-order export): every inner key is the smallest key of its right subtree -/
def MTree.innerKeysOk : MTree → Bool
  | .leaf .. => true
  | .inner k _ _ l r => decide (k = r.minKey) && l.innerKeysOk && r.innerKeysOk

/-- `validateInnerKeys` literally (util.go): nodes in exporter order, a stack of the smallest key of every finished
subtree; leaf: push its key; inner node: its key must equal the top (smallest key of the right subtree), which is popped -/
def innerKeysStack : List Bytes → List ENode → Bool
  | _, [] => true
  | st, n :: ns =>
    if n.height = 0 then innerKeysStack (n.key.getD [] :: st) ns
    else
      match st with
      | rmin :: lmin :: rest => if n.key = some rmin then innerKeysStack (lmin :: rest) ns else false
      | _ => false

def innerKeysOkOpt : Option MTree → Bool
  | none => true
  | some t => t.innerKeysOk

/-- node hash as a parameter; what it covers follows node.go:291 `writeHashBytes` (an inner node's key is not covered) -/
structure HashFns (η : Type) where
  leafH : Bytes → Bytes → Int → η
  innerH : Int → Nat → Int → η → η → η
  emptyH : η

variable {η : Type} [DecidableEq η]

def MTree.hash (H : HashFns η) : MTree → η
  | .leaf k v ver => H.leafH k v ver
  | .inner _ h ver l r => H.innerH h (l.size + r.size) ver (l.hash H) (r.hash H)

def rootOf (H : HashFns η) : Option MTree → η
  | none => H.emptyH
  | some t => t.hash H

inductive AddRes where
  | ok (stack : List MTree)
  | error
  | panic
  deriving DecidableEq, Repr

/-- `Importer.Add` (import.go:70-151).  The stack's head is its top.  Leaf = height 0 (`isLeaf`); a leaf never gets
children (no stack entry has a height below 0, `validate` refuses negative heights before a node is pushed). -/
def importerAdd (impVer : Int) (stack : List MTree) (n : ENode) : AddRes :=
  if n.version > impVer then .error else                       -- :78
  if n.height = 0 then
    match n.key, n.value with                                    -- validate(): key nil, value nil for a leaf
    | some k, some v => if n.version ≤ 0 then .error else .ok (.leaf k v n.version :: stack)
    | _, _ => .error
  else
    match stack with
    | r :: l :: rest =>
      if r.height < n.height ∧ l.height < n.height then          -- :98
        match n.key, n.value with                                -- validate(): key nil, value must be nil for non-leaf
        | some k, none => if n.version ≤ 0 then .error else .ok (.inner k n.height n.version l r :: rest)
        | _, _ => .error
      else .panic                                                -- _hash(): "Found an empty child hash" (node.go:323)
    | _ => .panic

inductive ImpOut where
  | tree (t : Option MTree)
  | err
  | panic (added : Nat)      -- nodes written to the batch before the panic
  deriving DecidableEq, Repr

/-- `Importer.Commit` (import.go:156-170) -/
def importerCommit : List MTree → ImpOut
  | [] => .tree none
  | [t] => .tree (some t)
  | _ :: _ :: _ => .err                                          -- "invalid node structure"

/-- the loop of `ReadTreeFrom2` over the decoded nodes, then `Commit`.
As found, the error of `Add` is ignored (util.go:144) and a panic propagates. -/
def importNodes (fixed : Bool) (impVer : Int) : List MTree → Nat → List ENode → ImpOut
  | stack, _, [] => importerCommit stack
  | stack, added, n :: ns =>
    match importerAdd impVer stack n with
    | .ok s' => importNodes fixed impVer s' (added + 1) ns
    | .error => if fixed then .err else importNodes fixed impVer stack added ns
    | .panic => if fixed then .err else .panic added

inductive SnapOut where
  | ok (t : Option MTree)
  | err                       -- every error return of ReadTreeFrom2 after the importer exists is preceded by ClearDb
  | panic (added : Nat)
  deriving DecidableEq, Repr

/-- `ReadTreeFrom2` (util.go:103) from the decoded node list on.  `decodeErr`: a later chunk failed in
`ioutil.ReadAll` / `proto.Unmarshal` (ClearDb + error; the nodes decoded before it had already been added).
`ValidateTree` recomputes the hashes the importer has just computed: always true here. -/
def importSnap (fixed : Bool) (H : HashFns η) (height : Nat) (root : η) (ws : List WNode) (decodeErr : Bool) : SnapOut :=
  match importNodes fixed (height : Int) [] 0 (ws.map fromWire) with
  | .panic n => .panic n
  | .err => .err
  | .tree t =>
    if decodeErr then .err
    else if rootOf H t ≠ root then .err                          -- "wrong tree root"
    else if fixed && !innerKeysOkOpt t then .err                 -- "wrong inner node key"
    else .ok t

/-- keys left in the target database (beyond what was there before the call) -/
def keysLeft : SnapOut → Nat
  | .ok none => 1
  | .ok (some t) => t.nodeCount + 1
  | .err => 0                                                    -- common.ClearDb(pdb)
  | .panic added => added / maxBatchSize * maxBatchSize          -- flushed batches stay

/-- `WriteTreeTo2`: node list → wire nodes → chunks of `SnapshotBlockSize` -/
def exportSnap (t : Option MTree) : List (List WNode) := chunks snapshotBlockSize ((exportOpt t).map toWire)

end IdenaModel.Sync
