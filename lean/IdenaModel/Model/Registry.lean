/-
M-Registry: the stored validator registry (`core/state/identity_statedb.go`, `IdentityStateDB`) and the
in-memory validator view built from it (`core/validators/validators.go`, `ValidatorsCache`).

* `Entry`      = `state.ApprovedIdentity` (state_object.go:717)
* `Reg`        = the content of the identity-state tree, keys strictly ascending (the order in which
                 `IterateIdentities` (identity_statedb.go:356) hands the entries to `loadValidNodes`)
* `IdState`    = `IdentityStateDB`: tree + live objects + dirty set; `IdState.commit` = `Commit(true)`
                 = `Precommit(true)` (identity_statedb.go:181) + `CommitTree` + `Clear`
* `Cache`      = `ValidatorsCache`; `load` = `loadValidNodes` (validators.go:188), `update` =
                 `UpdateFromIdentityStateDiff` (validators.go:254); every public getter
* `Ev`         = the registry writes of block application (blockchain/blockchain.go), one constructor per write site;
                 `IdState.applyBlock` = the events of a block followed by `Commit(true)`

Addresses are `Nat` (the driver/harness embed 20-byte addresses order-preservingly).  Go `mapset`s are lists without
duplicates in an arbitrary (insertion) order; only membership and cardinality are observable, and the two places that
enumerate a set (`sortedValidators` rebuild, fork committee count) take the enumeration as the list order — the theorems
`rebuildSorted_perm`/`forkCommitteeSize_perm` show that the order is irrelevant.  Core Lean only.
-/
namespace IdenaModel.Registry

/-- `state.ApprovedIdentity` (state_object.go:717) -/
structure Entry where
  validated : Bool
  online : Bool
  discr : Bool
  deleg : Option Nat
deriving DecidableEq, Repr, Inhabited

def Entry.zero : Entry := ⟨false, false, false, none⟩

/-- `stateApprovedIdentity.empty` (state_object.go:1606) -/
def Entry.isEmpty (e : Entry) : Bool := !e.validated && !e.online

/-- `data.Validated && !data.Discriminated` (validators.go:221, 291, 335) -/
def Entry.approved (e : Entry) : Bool := e.validated && !e.discr

/-! ## finite maps as association lists (first binding wins) and sets as lists -/

def lookup {β : Type} : List (Nat × β) → Nat → Option β
  | [], _ => none
  | (k', v) :: t, k => if k' = k then some v else lookup t k

def erase {β : Type} (l : List (Nat × β)) (k : Nat) : List (Nat × β) := l.filter (fun p => p.1 != k)

def store {β : Type} (l : List (Nat × β)) (k : Nat) (v : β) : List (Nat × β) := (k, v) :: erase l k

def setAdd (s : List Nat) (a : Nat) : List Nat := if a ∈ s then s else a :: s

def setRemove (s : List Nat) (a : Nat) : List Nat := s.filter (fun x => x != a)

/-! ## the tree content -/

abbrev Reg := List (Nat × Entry)

/-- strictly ascending keys -/
def RegSorted (r : Reg) : Prop := r.Pairwise (fun a b => a.1 < b.1)

/-- `tree.Set(key, value)` on the sorted dump -/
def regSet : Reg → Nat → Entry → Reg
  | [], k, v => [(k, v)]
  | (k', v') :: t, k, v =>
    if k < k' then (k, v) :: (k', v') :: t
    else if k = k' then (k, v) :: t
    else (k', v') :: regSet t k v

/-- `tree.Remove(key)` -/
def regDel (r : Reg) (k : Nat) : Reg := erase r k

/-- one `IdentityStateDiffValue` (identity_statedb.go:480); `data` is the decoded `Value` (zero when deleted) -/
structure DiffVal where
  addr : Nat
  deleted : Bool
  data : Entry
deriving DecidableEq, Repr

abbrev Diff := List DiffVal

/-- what `AddDiff` (identity_statedb.go:364) / `Precommit` do to the tree for one diff value -/
def applyVal (r : Reg) (d : DiffVal) : Reg :=
  if d.deleted then regDel r d.addr else regSet r d.addr d.data

/-- `S ⊕ d` -/
def applyDiff (r : Reg) (d : Diff) : Reg := d.foldl applyVal r

/-! ## IdentityStateDB: live objects, dirty set, Precommit -/

structure IdState where
  tree : Reg := []
  /-- `stateIdentities`: objects loaded or created since the last `Clear` -/
  live : List (Nat × Entry) := []
  /-- `stateIdentitiesDirty` -/
  dirty : List Nat := []
deriving Repr

/-- `getStateIdentity` then (if nil) `createIdentity` with a zero object (identity_statedb.go:220-263) -/
def IdState.current (s : IdState) (a : Nat) : Entry :=
  match lookup s.live a with
  | some e => e
  | none => match lookup s.tree a with
    | some e => e
    | none => Entry.zero

/-- `GetOrNewIdentityObject(a).SetX(..)`: the object becomes live and dirty (`touch`, state_object.go:1610) -/
def IdState.write (s : IdState) (a : Nat) (f : Entry → Entry) : IdState :=
  { s with live := store s.live a (f (s.current a)), dirty := setAdd s.dirty a }

def IdState.setValidated (s : IdState) (a : Nat) (b : Bool) : IdState := s.write a (fun e => { e with validated := b })
def IdState.setOnline (s : IdState) (a : Nat) (b : Bool) : IdState := s.write a (fun e => { e with online := b })
def IdState.setDiscriminated (s : IdState) (a : Nat) (b : Bool) : IdState := s.write a (fun e => { e with discr := b })
def IdState.setDelegatee (s : IdState) (a p : Nat) : IdState := s.write a (fun e => { e with deleg := some p })
def IdState.removeDelegatee (s : IdState) (a : Nat) : IdState := s.write a (fun e => { e with deleg := none })
/-- `IdentityStateDB.Remove` (identity_statedb.go:144) -/
def IdState.remove (s : IdState) (a : Nat) : IdState := (s.setValidated a false).setOnline a false

def IdState.isValidated (s : IdState) (a : Nat) : Bool := (s.current a).validated
def IdState.isOnline (s : IdState) (a : Nat) : Bool := (s.current a).online
def IdState.delegatee (s : IdState) (a : Nat) : Option Nat := (s.current a).deleg

def insertDesc (a : Nat) : List Nat → List Nat
  | [] => [a]
  | b :: bs => if b < a then a :: b :: bs else if a = b then b :: bs else b :: insertDesc a bs

/-- `getOrderedObjectsKeys` (statedb.go:1457): the dirty addresses in descending order -/
def orderedKeys (dirty : List Nat) : List Nat := dirty.foldl (fun acc a => insertDesc a acc) []

/-- the diff value `Precommit(true)` emits for a dirty address (identity_statedb.go:186-201) -/
def precommitVal (s : IdState) (a : Nat) : DiffVal :=
  let e := s.current a
  if e.isEmpty then { addr := a, deleted := true, data := Entry.zero }
  else { addr := a, deleted := false, data := e }

def IdState.precommitDiff (s : IdState) : Diff := (orderedKeys s.dirty).map (precommitVal s)

/-- `Commit(true)`: `Precommit(true)`, `CommitTree`, `Clear` -/
def IdState.commit (s : IdState) : IdState × Diff :=
  let d := s.precommitDiff
  ({ tree := applyDiff s.tree d, live := [], dirty := [] }, d)

/-! ## ValidatorsCache -/

/-- `pool` (validators.go:490) -/
structure Pool where
  delegators : List Nat
  approved : List Nat
deriving DecidableEq, Repr

def insertAsc (a : Nat) : List Nat → List Nat
  | [] => [a]
  | b :: bs => if a < b then a :: b :: bs else if a = b then b :: bs else b :: insertAsc a bs

/-- `newPool` (validators.go:495) -/
def newPool (owner : Nat) (ap : Bool) : Pool := { delegators := [], approved := if ap then [owner] else [] }

/-- `pool.add` (validators.go:510): binary-search insert into the ascending list; nothing at all happens
(the approval is *not* refreshed) when the address is already a delegator -/
def Pool.add (p : Pool) (a : Nat) (ap : Bool) : Pool :=
  if a ∈ p.delegators then p
  else { delegators := insertAsc a p.delegators, approved := if ap then setAdd p.approved a else p.approved }

/-- `pool.remove` (validators.go:525) -/
def Pool.remove (p : Pool) (a : Nat) : Pool :=
  { delegators := p.delegators.filter (fun x => x != a), approved := setRemove p.approved a }

/-- `pool.setApproved` (validators.go:549) -/
def Pool.setApproved (p : Pool) (a : Nat) (ap : Bool) : Pool :=
  { p with approved := if ap then setAdd p.approved a else setRemove p.approved a }

/-- `pool.discriminated` (validators.go:506) -/
def Pool.discriminated (p : Pool) : Bool := p.approved.isEmpty

structure Cache where
  validated : List Nat := []
  online : List Nat := []
  discr : List Nat := []
  delegations : List (Nat × Nat) := []
  pools : List (Nat × Pool) := []
  /-- `sortedValidators.list`, descending (validators.go:477) -/
  sorted : List Nat := []
  /-- a nil-pool dereference happened (validators.go:271/310): the Go call panics -/
  panicked : Bool := false
deriving Repr

/-- `v.validatedAddresses.Contains(p) && !v.discriminatedAddresses.Contains(p)` (validators.go:217, 303) -/
def Cache.approvedNow (c : Cache) (p : Nat) : Bool := decide (p ∈ c.validated) && !decide (p ∈ c.discr)

/-- the closure `removeDelegation` of validators.go:267 -/
def Cache.removeDelegation (c : Cache) (a : Nat) : Cache :=
  match lookup c.delegations a with
  | none => c
  | some p =>
    let c := { c with delegations := erase c.delegations a }
    match lookup c.pools p with
    | none => { c with panicked := true }
    | some pl =>
      let pl := pl.remove a
      if pl.delegators.isEmpty then { c with pools := erase c.pools p }
      else { c with pools := store c.pools p pl }

/-- get-or-create pool `p` (owner approval `pa` when created) and `pool.add(a, ap)` (validators.go:215-222, 297-308) -/
def Cache.addToPool (c : Cache) (a p : Nat) (ap pa : Bool) : Cache :=
  let pl := match lookup c.pools p with
    | some pl => pl
    | none => newPool p pa
  { c with pools := store c.pools p (pl.add a ap) }

/-- `if pool, ok := v.pools[a]; ok { pool.setApproved(a, ap) }` (validators.go:231, 339) -/
def Cache.fixOwner (c : Cache) (a : Nat) (ap : Bool) : Cache :=
  match lookup c.pools a with
  | some pl => { c with pools := store c.pools a (pl.setApproved a ap) }
  | none => c

/-- the rebuild of `sortedValidators` (validators.go:238-249, 344-356) from an enumeration of the online set -/
def rebuildSorted (c : Cache) (enum : List Nat) : List Nat :=
  enum.foldl (fun acc n =>
    let acc := if n ∈ c.validated then insertDesc n acc else acc
    match lookup c.pools n with
    | some pl => pl.delegators.foldl (fun acc d => insertDesc d acc) acc
    | none => acc) []

/-- one callback of `IterateIdentities` in `loadValidNodes` (validators.go:198-236); the second component is `onlineNodes` -/
def loadStep (st : Cache × List Nat) (ae : Nat × Entry) : Cache × List Nat :=
  let c := st.1
  let a := ae.1
  let e := ae.2
  let c := if e.online then { c with online := setAdd c.online a } else c
  let on := if e.online then st.2 ++ [a] else st.2
  let c := match e.deleg with
    | some p =>
      let c := c.addToPool a p e.approved (c.approvedNow p)
      { c with delegations := store c.delegations a p }
    | none => c
  let c := if e.validated then { c with validated := setAdd c.validated a } else c
  let c := if e.discr then { c with discr := setAdd c.discr a } else c
  (c.fixOwner a e.approved, on)

def loadCore (r : Reg) : Cache × List Nat := r.foldl loadStep ({}, [])

/-- `loadValidNodes` (validators.go:188) -/
def load (r : Reg) : Cache :=
  let st := loadCore r
  { st.1 with sorted := rebuildSorted st.1 st.2 }

/-- `if data.Online { Add } else { Remove }` (validators.go:314-318) -/
def Cache.setOnl (c : Cache) (a : Nat) (b : Bool) : Cache :=
  if b then { c with online := setAdd c.online a } else { c with online := setRemove c.online a }

/-- validators.go:320-327 without the `removeDelegation` of the else branch -/
def Cache.setVal (c : Cache) (a : Nat) (b : Bool) : Cache :=
  if b then { c with validated := setAdd c.validated a } else { c with validated := setRemove c.validated a }

/-- validators.go:329-333 -/
def Cache.setDis (c : Cache) (a : Nat) (b : Bool) : Cache :=
  if b then { c with discr := setAdd c.discr a } else { c with discr := setRemove c.discr a }

/-- the delegation part of one loop iteration (validators.go:287-312); `na` is `newApprovals` so far -/
def Cache.updDelegation (c : Cache) (na : List (Nat × Bool)) (a : Nat) (e : Entry) : Cache :=
  match e.deleg with
  | none => c.removeDelegation a
  | some p =>
    if lookup c.delegations a = some p then
      match lookup c.pools p with
      | some pl => { c with pools := store c.pools p (pl.setApproved a e.approved) }
      | none => { c with panicked := true }          -- nil pool dereference (validators.go:310)
    else
      let c := c.removeDelegation a                  -- `if ok { removeDelegation() }`: no-op without a delegation
      let c := { c with delegations := store c.delegations a p }
      let pa := match lookup na p with
        | some b => b
        | none => c.approvedNow p
      c.addToPool a p e.approved pa

/-- one iteration of the loop over `diff.Values` (validators.go:261-336); the second component is `newApprovals` -/
def updStep (st : Cache × List (Nat × Bool)) (d : DiffVal) : Cache × List (Nat × Bool) :=
  let c := st.1
  let na := st.2
  let a := d.addr
  if d.deleted then
    let c := (c.setOnl a false).setVal a false
    let c := c.removeDelegation a
    (c.setDis a false, store na a false)
  else
    let e := d.data
    let c := c.updDelegation na a e
    let c := c.setOnl a e.online
    let c := c.setVal a e.validated
    let c := if !e.validated && e.deleg.isSome then c.removeDelegation a else c     -- validators.go:324
    let c := c.setDis a e.discr
    (c, store na a e.approved)

/-- the loop over `newApprovals` (validators.go:338-342), in the order of the given enumeration of the map -/
def applyApprovals (c : Cache) (na : List (Nat × Bool)) : Cache :=
  na.foldl (fun c ab => c.fixOwner ab.1 ab.2) c

def updateCore (c : Cache) (d : Diff) : Cache :=
  let st := d.foldl updStep (c, [])
  applyApprovals st.1 st.2

/-- `UpdateFromIdentityStateDiff` (validators.go:254) -/
def update (c : Cache) (d : Diff) : Cache :=
  let c' := updateCore c d
  { c' with sorted := rebuildSorted c' c'.online }

/-! ## getters -/

def Cache.networkSize (c : Cache) : Nat := c.validated.length
def Cache.onlineSize (c : Cache) : Nat := c.online.length
def Cache.validatorsSize (c : Cache) : Nat := c.sorted.length
def Cache.isValidated (c : Cache) (a : Nat) : Bool := decide (a ∈ c.validated)
def Cache.isOnlineIdentity (c : Cache) (a : Nat) : Bool := decide (a ∈ c.online)
def Cache.isPool (c : Cache) (a : Nat) : Bool := (lookup c.pools a).isSome

/-- `IsDiscriminated` (validators.go:168) -/
def Cache.isDiscriminated (c : Cache) (a : Nat) : Bool :=
  match lookup c.pools a with
  | some pl => pl.discriminated
  | none => decide (a ∈ c.discr)

/-- `PoolSize` (validators.go:381) -/
def Cache.poolSize (c : Cache) (a : Nat) : Nat :=
  match lookup c.pools a with
  | some pl => pl.delegators.length + (if a ∈ c.validated then 1 else 0)
  | none => 0

/-- `PoolSizeExceptNodes` (validators.go:392); `int`, may go below zero with repeated nodes -/
def Cache.poolSizeExcept (c : Cache) (a : Nat) (except : List Nat) : Int :=
  match lookup c.pools a with
  | some pl =>
    except.foldl (fun (sz : Int) x => if x ∈ pl.delegators then sz - 1 else sz)
      ((pl.delegators.length + (if a ∈ c.validated then 1 else 0) : Nat) : Int)
  | none => 0

/-- `Delegator` (validators.go:424); Go answers the zero address for `none` -/
def Cache.delegator (c : Cache) (a : Nat) : Option Nat := lookup c.delegations a

/-- `FindSubIdentity` (validators.go:413); outer `none` = the Go call panics (nil pool / empty list) -/
def Cache.findSubIdentity (c : Cache) (p nonce : Nat) : Option (Nat × Nat) :=
  match lookup c.pools p with
  | none => none
  | some pl =>
    let set := if p ∈ c.validated then p :: pl.delegators else pl.delegators
    let n := if nonce ≥ set.length then 0 else nonce
    match set[n]? with
    | some x => some (x, n + 1)
    | none => none

/-- `buildForkCommittee` (validators.go:131) over the enumeration `c.online` -/
def Cache.forkCommitteeSize (c : Cache) : Nat :=
  c.online.countP (fun a =>
    match lookup c.pools a with
    | some pl => !pl.discriminated
    | none => !decide (a ∈ c.discr))

/-- the online addresses that are neither validated nor a pool: the registry-level reading of "only validated
identities or pools are online" says this list is empty -/
def Cache.onlineNotValidatedNotPool (c : Cache) : List Nat :=
  c.online.filter (fun a => !decide (a ∈ c.validated) && !(lookup c.pools a).isSome)

/-- `StepValidators` (validators.go:448) as duplicate-free lists in first-occurrence order -/
structure StepValidators where
  original : List Nat
  validators : List Nat
  approved : List Nat
deriving DecidableEq, Repr

def dedup (l : List Nat) : List Nat := l.foldl (fun acc a => if a ∈ acc then acc else acc ++ [a]) []

/-- `determineValidators` (validators.go:58) -/
def Cache.determineValidators (c : Cache) (set : List Nat) : StepValidators :=
  { original := set
    validators := dedup (set.map fun a => match lookup c.delegations a with | some p => p | none => a)
    approved := dedup (set.filterMap fun a =>
      match lookup c.delegations a with
      | some p =>
        match lookup c.pools p with
        | some pl => if pl.discriminated then none else some p
        | none => none                      -- "Pool not found" warning, nobody is approved
      | none => if a ∈ c.discr then none else some a) }

inductive Committee where
  | nil                               -- Go returns nil: fewer validators than `limit`
  | panic                             -- index out of range (cannot happen for a permutation of `range len`)
  | ok (sv : StepValidators)
deriving DecidableEq, Repr

/-- `GetOnlineValidators` (validators.go:81).  `perm` stands for `rand.Perm(len(sortedValidators))` seeded from
`(seed, round, step)` — an external function, a parameter here.  `limit ≥ 0`. -/
def Cache.getOnlineValidators (c : Cache) (god : Nat) (perm : List Nat) (limit : Nat) : Committee :=
  if c.onlineSize = 0 then .ok { original := [god], validators := [god], approved := [god] }
  else if c.sorted.length = limit then .ok (c.determineValidators c.sorted)
  else if c.sorted.length < limit then .nil
  else
    match (perm.take limit).mapM (fun i => c.sorted[i]?) with
    | some set => .ok (c.determineValidators (dedup set))
    | none => .panic

/-! ## the registry writes of block application (blockchain/blockchain.go)

One constructor per place where block application writes the registry.  Values that come from the identity ledger or
from the previous block's validator view are carried by the event (they are inputs of the registry-level model). -/

inductive Ev where
  /-- `KillTx` / `KillInviteeTx` / `KillDelegatorTx`: `IdentityState.Remove` (blockchain.go:1575, 1601, 1627) -/
  | kill (a : Nat)
  /-- one address of `applyStatusSwitch` (blockchain.go:1841-1860); `isPool` = `ValidatorsCache.IsPool(a)` -/
  | statusSwitch (a : Nat) (isPool : Bool)
  /-- `SetOnline(a, false)`: `applyDelayedOfflinePenalty` (:1263), `applyOfflinePenalty` (:1255),
      `switchOnePoolToOffline` (:1134) -/
  | offline (a : Nat)
  /-- an accepted delegation of `applyDelegationSwitch` (blockchain.go:1904-1915) -/
  | delegate (a p : Nat) (discr : Bool)
  /-- an undelegation of `applyDelegationSwitch` (blockchain.go:1877-1896); `pen` = the pool's penalty is inherited -/
  | undelegate (a : Nat) (discr : Bool) (pen : Bool)
  /-- `applyDiscriminationStatusSwitch` (:1954), `applyDiscriminationStakeThreshold` (:1107) -/
  | discriminate (a : Nat) (b : Bool)
  /-- `setNewIdentitiesAttributes` for a Newbie/Verified/Human identity (blockchain.go:858-880);
      `ld` = the delegatee in the identity ledger -/
  | epochValidated (a : Nat) (ld : Option Nat)
  /-- `setNewIdentitiesAttributes` for every other state (blockchain.go:881-909); `isPool` = `a ∈ validationResult.Pools` -/
  | epochNotValidated (a : Nat) (isPool : Bool)
deriving DecidableEq, Repr

def IdState.applyEv (s : IdState) : Ev → IdState
  | .kill a => s.remove a
  | .statusSwitch a isPool =>
    if s.isOnline a then s.setOnline a false
    else if s.isValidated a || isPool then s.setOnline a true
    else s
  | .offline a => s.setOnline a false
  | .delegate a p discr => ((s.setDelegatee a p).setDiscriminated a discr).setOnline a false
  | .undelegate a discr pen =>
    let s := s.removeDelegatee a
    let s := if pen then s.setOnline a false else s
    s.setDiscriminated a discr
  | .discriminate a b => s.setDiscriminated a b
  | .epochValidated a ld =>
    let s := s.setValidated a true
    match ld with
    | some p => s.setDelegatee a p
    | none => s
  | .epochNotValidated a isPool =>
    let s := s.setValidated a false
    if isPool then s else s.setOnline a false

/-- what the chain guarantees about an event through checks that live outside the registry (in transaction validation
and in the identity ledger); the registry-level theorems take these as hypotheses, `guard_needed_*` show that they
cannot be dropped:
* a status switch is only queued for an identity without delegatee (`validateOnlineStatusTx`, validation.go:561-564);
* an identity that has a delegatee in the ledger at the end of an epoch is offline (it was switched offline when the
  delegation was applied, blockchain.go:1915, and cannot go online afterwards). -/
def Ev.guard (s : IdState) : Ev → Prop
  | .statusSwitch a _ => s.delegatee a = none
  | .epochValidated a ld => ld ≠ none → s.isOnline a = false
  | _ => True

/-- the events of one block, then `Precommit`/`Commit` -/
def IdState.applyBlock (s : IdState) (evs : List Ev) : IdState × Diff := (evs.foldl IdState.applyEv s).commit

end IdenaModel.Registry
