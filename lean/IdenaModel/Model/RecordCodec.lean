import IdenaModel.Model.CodecObjects
/-!
# C18: generic codec of a flat record

Most hand-written `ToBytes/FromBytes` pairs of idena-go map a Go struct whose fields are scalars, byte strings,
fixed-size arrays, optional addresses/hashes and big integers one-to-one onto the singular fields of one protobuf
message (attachments, indexes, manifests, handshake, headers, …).  `Spec` describes such a pair: for every Go field
(in field-number order) the proto field number and the value conversion; `recToMsg`/`recFromMsg` are the generic
encoder/decoder.  The harness derives the `Spec` of every flat type at run time (field pairing from the regenerated
table, conversion from the Go type and the proto kind) and the driver compares `encode (recToMsg spec x)` with the
real `ToBytes` output byte for byte (`rec` op), so `record_roundtrip` (Props/C18.lean) speaks about the real codecs of
those types.  Core Lean only.
-/
namespace IdenaModel.Codec
open IdenaModel.ProtoWire

inductive Conv where
  | uint                 -- uint8/16/32/64 and named integer types, widened to uint32/uint64
  | int64                -- int64 / time.Time (unix seconds): two's complement in a varint
  | bool
  | bytes                -- []byte / string (nil ≃ empty)
  | fixed (n : Nat)      -- [n]byte (Hash, Address, Seed, Hash128): always written
  | optFixed (n : Nat)   -- *[n]byte: nil ↦ absent
  | big                  -- *big.Int: nil ≃ 0, magnitude only
deriving DecidableEq, Repr

inductive GoVal where
  | nat (n : Nat)
  | int (z : Int)
  | bool (b : Bool)
  | bytes (b : Bytes)
  | optBytes (o : Option Bytes)
  | optInt (o : Option Int)
deriving DecidableEq, Repr

def kindOf : Conv → Kind
  | .uint | .int64 | .bool => .int
  | _ => .bytes

/-- what `ToProto` puts into the proto field (`none` = the value does not have the Go type the conversion expects) -/
def convEnc : Conv → GoVal → Option Val
  | .uint, .nat n => some (.int n)
  | .int64, .int z => some (.int (i64Enc z))
  | .bool, .bool b => some (.int (b2n b))
  | .bytes, .bytes b => some (.bytes b)
  | .fixed _, .bytes b => some (.bytes b)
  | .optFixed _, .optBytes o => some (.bytes (optEnc o))
  | .big, .optInt o => some (.bytes (bigEnc o))
  | _, _ => none

/-- what `FromProto` makes of proto field `f` of the decoded message (through the proto3 getters) -/
def convDec : Conv → Msg → Nat → GoVal
  | .uint, m, f => .nat (getInt m f)
  | .int64, m, f => .int (i64Dec (getInt m f))
  | .bool, m, f => .bool (getInt m f != 0)
  | .bytes, m, f => .bytes (getBytes m f)
  | .fixed n, m, f => .bytes (fixN n (getBytes m f))
  | .optFixed n, m, f => .optBytes (optDec n (getBytes m f))
  | .big, m, f => .optInt (bigDec (getBytes m f))

/-- WF of a Go value for its conversion (the stated side conditions of the round trip) -/
def convWF : Conv → GoVal → Prop
  | .uint, .nat _ => True
  | .int64, .int z => inI64 z
  | .bool, .bool _ => True
  | .bytes, .bytes _ => True
  | .fixed n, .bytes b => b.length = n
  | .optFixed n, .optBytes o => 0 < n ∧ ∀ a, o = some a → a.length = n
  | .big, .optInt o => 0 ≤ bigVal o
  | _, _ => False

/-- semantic normal form of a Go value: `nil ≃ 0` for big integers -/
def GoVal.sem : GoVal → GoVal
  | .optInt o => .optInt (some (bigVal o))
  | v => v

abbrev Spec := List (Nat × Conv)

def recSchema (spec : Spec) : Schema := spec.map fun p => (p.1, false, kindOf p.2)

/-- generic `ToProto`: one occurrence per field, in spec order -/
def recToMsg : Spec → List GoVal → Option Msg
  | [], [] => some []
  | (f, c) :: s, g :: gs =>
    match convEnc c g, recToMsg s gs with
    | some v, some m => some ((f, v) :: m)
    | _, _ => none
  | _, _ => none

/-- generic `FromProto` -/
def recFromMsg (spec : Spec) (m : Msg) : List GoVal := spec.map fun p => convDec p.2 m p.1

/-- every Go value is in the domain of its conversion -/
def recWF : Spec → List GoVal → Prop
  | [], [] => True
  | (_, c) :: s, g :: gs => convWF c g ∧ recWF s gs
  | _, _ => False

/-- spec in strictly increasing field-number order, numbers ≥ 1 -/
def specOK : Spec → Bool
  | [] => true
  | [(f, _)] => decide (1 ≤ f)
  | (f, _) :: (g, c) :: t => decide (1 ≤ f) && decide (f < g) && specOK ((g, c) :: t)

end IdenaModel.Codec
