/-
M-Crash (C09): the durable store of a node at the granularity of atomic write events, the write lists of
`AddBlock` / `ResetTo` / the fast-sync hand-over in the code's order, crash = a prefix of the write list, and
the start-up sequence `InitializeChain; appState.Initialize(head) else Initialize(0); EnsureIntegrity`.
Core Lean only (compiled into `oracle_c09`).

Sources followed clause by clause:
* blockchain/blockchain.go:428-485 `AddBlock` (parent check :431, `CommitTrees` :452, `insertBlock` :457,
  `RemovePreliminaryHead` :482), :2212-2216 `insertHeader` (header, head, canonical hash — in this order),
  :2218-2240 `insertBlock` (identity diff, tx index, receipts, own-tx index), :2874-2882 `WriteIdentityStateDiff`,
  :2715-2738 `ResetTo`, :2740-2763 `EnsureIntegrity`, :191-243 `InitializeChain`, :2780-2786 `AddHeaderUnsafe`,
  :2979-3019 `AtomicSwitchToPreliminary`;
* core/appstate/appstate.go:136-152 `Initialize`, :214-236 `ResetTo`, :248-261 `CommitTrees`;
* core/state/statedb.go:1306-1324 `CommitTree` (SaveVersionAt, then one DeleteVersion batch per pruned version),
  :1543 `ResetTo` (= iavl `LoadVersionForOverwriting`), identity_statedb.go:160,346,390-413,427-440;
* iavl (idena fork) mutable_tree.go:352-410 `LoadVersion`, :412-440 `LoadVersionForOverwriting`, :496-560
  `saveVersionImpl` (an existing version with the same hash is a no-op **without any write**, with another hash an
  error), nodedb.go:546 `Commit` (one batch per tree operation);
* database/repository.go (`WriteHead` stores the *encoded header* under `LastBlock`, `SetHead` :193 goes through the
  canonical hash of the height and silently does nothing when it is missing, `RemoveIdentityStateDiff` :340 deletes
  only an existing record); node/node.go:263-277 (start-up order).

The model follows the code AFTER the repair of the canonical-hash hole (insertHeader = one batch
`Repo.WriteHeadBlock`; `InitializeChain` re-writes a missing canonical hash of the head; `ResetTo` first runs
`ensureCanonicalHeader`).  The order as found (header, head, canonical hash as three puts; no healing) is kept as
the flagged variants `insertWritesAsFound` / `resetOpAsFound` / `recoverAsFound`, used only by the witness theorems.

Tree contents are abstracted to `version ↦ root hash`; hashes/roots are natural numbers handed in by the harness
(interned), `emptyRoot = 0` is the hash of the empty tree.
-/
namespace IdenaModel.Crash

structure Hdr where
  hash : Nat
  height : Nat
  parent : Nat
  sroot : Nat
  iroot : Nat
  deriving DecidableEq, Repr, Inhabited

def emptyRoot : Nat := 0

/-- a versioned iavl tree on disk: root record per saved version; `hi` bounds the saved versions (only used to
enumerate them: `LoadVersion(0)` = latest, truncation lists, pruning) -/
structure Tree where
  root : Nat → Option Nat
  hi : Nat

namespace Tree
def empty : Tree := ⟨fun _ => none, 0⟩
def has (t : Tree) (v : Nat) : Bool := (t.root v).isSome
def save (t : Tree) (v r : Nat) : Tree := ⟨fun x => if x = v then some r else t.root x, max t.hi v⟩
def del (t : Tree) (vs : List Nat) : Tree := ⟨fun x => if x ∈ vs then none else t.root x, t.hi⟩
/-- `LoadVersionForOverwriting(target)`'s batch: every version above `target` is deleted -/
def trunc (t : Tree) (target : Nat) : Tree := ⟨fun x => if x ≤ target then t.root x else none, t.hi⟩

/-- largest saved version `≤ n`, 0 if none -/
def latestLe (t : Tree) : Nat → Nat
  | 0 => 0
  | n + 1 => if t.has (n + 1) then n + 1 else t.latestLe n

/-- iavl `LoadVersion(target)`: `some (version, root)` or `none` (error). `target = 0` loads the latest version
(version 0 with the empty root when nothing was ever saved); otherwise the version must exist. -/
def load (t : Tree) (target : Nat) : Option (Nat × Nat) :=
  if target = 0 then
    let v := t.latestLe t.hi
    if v = 0 then some (0, emptyRoot) else (t.root v).map fun r => (v, r)
  else (t.root target).map fun r => (target, r)

/-- saved versions in ascending order (iavl `AvailableVersions`) -/
def versions (t : Tree) : List Nat := (List.range (t.hi + 1)).filter t.has
def versionsAbove (t : Tree) (target : Nat) : List Nat := t.versions.filter (· > target)
end Tree

/-- the durable store, as far as start-up and the modelled operations read it -/
structure Store where
  st : Tree                      -- state tree under the current state prefix
  idt : Tree                     -- identity tree under the current identity prefix
  head : Option Hdr              -- `LastBlock` (the encoded header itself)
  hdrs : Nat → Option Hdr        -- header by hash
  canon : Nat → Option Nat       -- canonical hash by height
  idDiff : Nat → Bool            -- identity diff stored for a height
  prelim : Option Hdr            -- `preliminary-head`
  pidt : Tree                    -- preliminary identity tree (fast sync staging)
  pst : Tree                     -- imported state tree under the snapshot height's prefix (staging)

/-- one atomic write event (single put/delete or a whole batch) -/
inductive W where
  | stSave (v r : Nat) | idSave (v r : Nat)
  | stDel (vs : List Nat) | idDel (vs : List Nat)      -- iavl DeleteVersion batch (pruning)
  | stTrunc (t : Nat) | idTrunc (t : Nat)              -- LoadVersionForOverwriting batch
  | hdr (h : Hdr) | head (h : Hdr) | canon (height hash : Nat)
  | newHead (h : Hdr)                                  -- Repo.WriteHeadBlock: header record + canonical hash + head pointer, one batch
  | idDiffSet (height : Nat) | idDiffDel (height : Nat)
  | sec                                                -- secondary index write (tx / receipt / own-tx / burnt / events / ceremony db)
  | rmPrelim
  | hdrDel (hash : Nat) | canonDel (height : Nat)
  | prelimHead (h : Hdr)
  | stage (cls : String)                               -- write under a tree prefix that is not (yet / any more) current
  | prelimPrefix                                       -- registers the copied identity tree as preliminary
  | pidSave (v r : Nat) | pstSave (v r : Nat)
  | switch (h : Option Hdr)                            -- the single batch of AtomicSwitchToPreliminary
  -- un-batched variant of the switch (used only by the counter-theorem)
  | switchTrees | switchHead (h : Option Hdr)
  deriving Repr

def upd {α : Type} (f : Nat → α) (k : Nat) (v : α) : Nat → α := fun x => if x = k then v else f x

def apply (s : Store) : W → Store
  | .stSave v r => { s with st := s.st.save v r }
  | .idSave v r => { s with idt := s.idt.save v r }
  | .stDel vs => { s with st := s.st.del vs }
  | .idDel vs => { s with idt := s.idt.del vs }
  | .stTrunc t => { s with st := s.st.trunc t }
  | .idTrunc t => { s with idt := s.idt.trunc t }
  | .hdr h => { s with hdrs := upd s.hdrs h.hash (some h) }
  | .head h => { s with head := some h }
  | .canon ht hs => { s with canon := upd s.canon ht (some hs) }
  | .newHead h => { s with hdrs := upd s.hdrs h.hash (some h), canon := upd s.canon h.height (some h.hash), head := some h }
  | .idDiffSet ht => { s with idDiff := upd s.idDiff ht true }
  | .idDiffDel ht => { s with idDiff := upd s.idDiff ht false }
  | .sec => s
  | .rmPrelim => { s with prelim := none }
  | .hdrDel hs => { s with hdrs := upd s.hdrs hs none }
  | .canonDel ht => { s with canon := upd s.canon ht none }
  | .prelimHead h => { s with prelim := some h }
  | .stage _ => s
  | .prelimPrefix => { s with pidt := s.idt }
  | .pidSave v r => { s with pidt := s.pidt.save v r }
  | .pstSave v r => { s with pst := Tree.empty.save v r }
  | .switch h => { s with idt := s.pidt, pidt := Tree.empty, st := s.pst, prelim := none,
                          head := match h with | some x => some x | none => s.head }
  | .switchTrees => { s with idt := s.pidt, pidt := Tree.empty, st := s.pst }
  | .switchHead h => { s with prelim := none, head := match h with | some x => some x | none => s.head }

def applyAll (s : Store) (ws : List W) : Store := ws.foldl apply s

/-- the store that survives a crash after `k` write events -/
def crashAt (k : Nat) (ws : List W) (s : Store) : Store := applyAll s (ws.take k)

/-- `GetBlockHeaderByHeight` -/
def headerAt (s : Store) (height : Nat) : Option Hdr :=
  match s.canon height with
  | some g => s.hdrs g
  | none => none

/-! ### the node's memory after start-up / between operations -/

structure Mem where
  head : Hdr
  prelim : Bool        -- `chain.PreliminaryHead != nil`
  sv : Nat             -- loaded state tree version
  sroot : Nat          -- its root
  iv : Nat
  iroot : Nat
  deriving Repr

inductive Err where
  | parent | differentHash | noVersion | other
  deriving Repr, DecidableEq

/-! ### AddBlock -/

structure Blk where
  hdr : Hdr
  diff : Bool          -- identity diff non-empty
  sec1 : Nat           -- secondary index writes of insertBlock / the ceremony's handler
  sec2 : Nat           -- … after the preliminary-head removal
  deriving Repr

/-- `SaveVersionAt`: nothing is written when the version exists with the same root -/
def saveW (t : Tree) (v r : Nat) (mk : Nat → Nat → W) : Except Err (List W) :=
  match t.root v with
  | none => .ok [mk v r]
  | some r' => if r' = r then .ok [] else .error .differentHash

/-- `CommitTree`'s pruning: when the new version is above `MaxSavedStatesCount`, the oldest versions beyond
the newest 100 are deleted, one batch each -/
def MaxSavedStatesCount : Nat := 100

/-- `versions[: len - 100]` of the ascending, duplicate-free version list, written as "the versions that have at
least 100 saved versions above them" (the same list for a strictly ascending input; the tie replays the real
pruning batches against this formula on the >100-block scenarios) -/
def pruneList (vs : List Nat) (newV : Nat) : List Nat :=
  if newV > MaxSavedStatesCount then vs.filter (fun v => MaxSavedStatesCount ≤ (vs.filter (· > v)).length) else []

/-- writes performed + the error that stopped the operation (if any) -/
structure OpRes where
  ws : List W
  err : Option Err
  deriving Repr

/-- the writes of `insertHeader`: since the repair of the canonical-hash hole (`Repo.WriteHeadBlock`) one batch;
as found (`asFound = true`, kept for the witness theorems) three separate puts: header, head, canonical hash -/
def headerWrites (asFound : Bool) (h : Hdr) : List W :=
  if asFound then [.hdr h, .head h, .canon h.height h.hash] else [.newHead h]

/-- the write list of `AddBlock(b)` on a node with memory `m` over store `s`; `sd`/`idl` are the versions pruned
from the state / identity tree (computed by `insertOp` below; a parameter here so that the theorems can
quantify over them).  `CommitTrees` saves and prunes the state tree before it touches the identity tree, so an
identity-tree conflict leaves the state batch(es) written. -/
def insertWritesG (asFound : Bool) (s : Store) (m : Mem) (b : Blk) (sd idl : List Nat) : OpRes :=
  if b.hdr.height ≠ m.head.height + 1 ∨ b.hdr.parent ≠ m.head.hash then ⟨[], some .parent⟩
  else
    match saveW s.st b.hdr.height b.hdr.sroot .stSave with
    | .error e => ⟨[], some e⟩
    | .ok w1 =>
      match saveW s.idt b.hdr.height b.hdr.iroot .idSave with
      | .error e => ⟨w1 ++ sd.map (fun v => .stDel [v]), some e⟩
      | .ok w2 =>
        ⟨w1 ++ sd.map (fun v => .stDel [v]) ++ w2 ++ idl.map (fun v => .idDel [v]) ++
          headerWrites asFound b.hdr ++
          (if b.diff then [.idDiffSet b.hdr.height] else if s.idDiff b.hdr.height then [.idDiffDel b.hdr.height] else []) ++
          List.replicate b.sec1 .sec ++ (if m.prelim then [.rmPrelim] else []) ++ List.replicate b.sec2 .sec, none⟩

/-- the code's AddBlock -/
def insertWrites (s : Store) (m : Mem) (b : Blk) (sd idl : List Nat) : OpRes := insertWritesG false s m b sd idl

/-- AddBlock as found before the repair (FLAGGED VARIANT, not what the driver runs) -/
def insertWritesAsFound (s : Store) (m : Mem) (b : Blk) (sd idl : List Nat) : OpRes := insertWritesG true s m b sd idl

/-- pruning as the code computes it, from the tree after the save -/
def insertOp (s : Store) (m : Mem) (b : Blk) : OpRes :=
  insertWrites s m b (pruneList ((s.st.save b.hdr.height b.hdr.sroot).versions) b.hdr.height)
    (pruneList ((s.idt.save b.hdr.height b.hdr.iroot).versions) b.hdr.height)

def memAfterInsert (m : Mem) (b : Blk) : Mem :=
  { head := b.hdr, prelim := false, sv := b.hdr.height, sroot := b.hdr.sroot, iv := b.hdr.height, iroot := b.hdr.iroot }

/-! ### ResetTo -/

/-- header/canonical removals of `ResetTo` for the heights `from+1 … from+n` -/
def removeAbove (s : Store) (from' : Nat) : Nat → List W
  | 0 => []
  | n + 1 =>
    removeAbove s from' n ++
      (match s.canon (from' + n + 1) with
       | some g => [.hdrDel g, .canonDel (from' + n + 1)]
       | none => [])

/-- the write list of `ResetTo(t)` (both target versions exist); `prevHead` is the in-memory head height -/
def resetWrites (s : Store) (prevHead t : Nat) : List W :=
  [.stTrunc t, .idTrunc t] ++ (match headerAt s t with | some h => [.head h] | none => []) ++
    removeAbove s t (prevHead - t)

/-- `ensureCanonicalHeader`'s walk: from `cur` down the parent hashes to height `t` (fuel = height difference + 1) -/
def walkDown (s : Store) (t : Nat) : Nat → Hdr → Option Hdr
  | 0, _ => none
  | fuel + 1, cur =>
    if cur.height > t then
      match s.hdrs cur.parent with
      | some p => walkDown s t fuel p
      | none => none
    else if cur.height = t then some cur else none

/-- `ensureCanonicalHeader(t)`: nothing to do when the canonical header of `t` is found; otherwise the header is
looked up through the parent hashes from the head and its records are restored; `none` = error -/
def canonFix (s : Store) (head : Hdr) (t : Nat) : Option (List W) :=
  match headerAt s t with
  | some _ => some []
  | none =>
    match walkDown s t (head.height - t + 1) head with
    | some x => some [.hdr x, .canon t x.hash]
    | none => none

/-- `ResetTo(t)` -/
def resetOp (s : Store) (m : Mem) (t : Nat) : OpRes :=
  match canonFix s m.head t with
  | none => ⟨[], some .other⟩                            -- refused before anything is touched
  | some pre =>
    if s.st.has t = false then ⟨pre, some .noVersion⟩
    else if s.idt.has t = false then ⟨pre ++ [.stTrunc t], some .noVersion⟩   -- appstate.go:219: checked after the state tree was reset
    else ⟨pre ++ resetWrites (applyAll s pre) m.head.height t, none⟩

/-- `ResetTo(t)` as found before the repair (FLAGGED VARIANT): no `ensureCanonicalHeader` -/
def resetOpAsFound (s : Store) (m : Mem) (t : Nat) : OpRes :=
  if s.st.has t = false then ⟨[], some .noVersion⟩
  else if s.idt.has t = false then ⟨[.stTrunc t], some .noVersion⟩
  else ⟨resetWrites s m.head.height t, none⟩

def memAfterReset (s : Store) (m : Mem) (t : Nat) : Mem :=
  { head := (headerAt s t).getD m.head, prelim := m.prelim,
    sv := t, sroot := (s.st.root t).getD emptyRoot, iv := t, iroot := (s.idt.root t).getD emptyRoot }

/-! ### start-up -/

inductive Outcome where
  | ok (s : Store) (m : Mem) (repair : List W)
  | noHead                 -- empty database: a genesis would be generated (not a crash state of the modelled operations)
  | errGenesis             -- "genesis block is not found"
  | errCorrupted           -- "state db is corrupted …"
  | errReset               -- EnsureIntegrity's ResetTo refused (canonical header of the target cannot be restored)
  | hang                   -- EnsureIntegrity's loop never terminates (ResetTo cannot move the head)

/-- `EnsureIntegrity`'s search: from `h` downwards, at most `tries` candidates, `h ≥ 1` -/
def searchDown (s : Store) : Nat → Nat → Option Nat
  | _, 0 => none
  | 0, _ => none
  | h + 1, tries + 1 =>
    if s.st.has (h + 1) && s.idt.has (h + 1) then some (h + 1) else searchDown s h tries

def ensure : Nat → Store → Mem → List W → Outcome
  | 0, _, _, _ => .hang
  | fuel + 1, s, m, acc =>
    if m.head.sroot = m.sroot ∧ m.head.iroot = m.iroot then .ok s m acc
    else
      match searchDown s (m.head.height - 1) (MaxSavedStatesCount + 1) with
      | none => .errCorrupted
      | some t =>
        match canonFix s m.head t with
        | none => .errReset          -- ResetTo refuses: "canonical block header of the target height is not found"
        | some pre =>
          let s1 := applyAll s pre
          let ws := resetWrites s1 m.head.height t
          ensure fuel (applyAll s1 ws) (memAfterReset s1 m t) (acc ++ pre ++ ws)

/-- `EnsureIntegrity` as found before the repair (FLAGGED VARIANT) -/
def ensureAsFound : Nat → Store → Mem → List W → Outcome
  | 0, _, _, _ => .hang
  | fuel + 1, s, m, acc =>
    if m.head.sroot = m.sroot ∧ m.head.iroot = m.iroot then .ok s m acc
    else
      match searchDown s (m.head.height - 1) (MaxSavedStatesCount + 1) with
      | none => .errCorrupted
      | some t =>
        let ws := resetWrites s m.head.height t
        match headerAt s t with
        | none => .hang      -- SetHead does nothing, the head stays, the loop repeats identically
        | some _ => ensureAsFound fuel (applyAll s ws) (memAfterReset s m t) (acc ++ ws)

def loadBoth (s : Store) (target : Nat) : Option ((Nat × Nat) × (Nat × Nat)) :=
  match s.st.load target, s.idt.load target with
  | some a, some b => some (a, b)
  | _, _ => none

/-- `InitializeChain`'s healing of the head's canonical hash (blockchain.go, after `setCurrentHead`) -/
def healHead (s : Store) (h : Hdr) : List W :=
  if s.canon h.height = some h.hash then [] else [.hdr h, .canon h.height h.hash]

/-- `InitializeChain; appState.Initialize(head) else Initialize(0); EnsureIntegrity` -/
def recover (s : Store) : Outcome :=
  match s.head with
  | none => .noHead
  | some h =>
    let heal := healHead s h
    let s1 := applyAll s heal
    match headerAt s1 1 with
    | none => .errGenesis
    | some _ =>
      let ld := match loadBoth s1 h.height with
        | some x => some x
        | none => loadBoth s1 0
      match ld with
      | none => .errCorrupted
      | some ((sv, sr), (iv, ir)) =>
        ensure (h.height + 1) s1 { head := h, prelim := s1.prelim.isSome, sv := sv, sroot := sr, iv := iv, iroot := ir } heal

/-- the start-up sequence as found before the repair (FLAGGED VARIANT) -/
def recoverAsFound (s : Store) : Outcome :=
  match s.head with
  | none => .noHead
  | some h =>
    match headerAt s 1 with
    | none => .errGenesis
    | some _ =>
      let ld := match loadBoth s h.height with
        | some x => some x
        | none => loadBoth s 0
      match ld with
      | none => .errCorrupted
      | some ((sv, sr), (iv, ir)) =>
        ensureAsFound (h.height + 1) s { head := h, prelim := s.prelim.isSome, sv := sv, sroot := sr, iv := iv, iroot := ir } []

/-! ### the fast-sync hand-over (protocol/fast.go preConsuming / applyDeferredBlocks / postConsuming) -/

structure FsHdr where
  hdr : Hdr
  diff : Bool
  deriving Repr

structure FsParams where
  copy : Nat         -- keys copied into the new identity prefix (one put each)
  hdrs : List FsHdr
  importKeys : Nat   -- single puts of the snapshot import (none with the current importer: it commits one batch)
  clearId : Nat      -- single deletes of the abandoned identity tree
  clearSt : Nat
  deriving Repr

def fsHeaderWrites (s : Store) : List FsHdr → List W
  | [] => []
  | f :: rest =>
    (if f.diff then [.pidSave f.hdr.height f.hdr.iroot] else []) ++
      [.hdr f.hdr, .canon f.hdr.height f.hdr.hash, .prelimHead f.hdr] ++
      (if f.diff then [.idDiffSet f.hdr.height] else if s.idDiff f.hdr.height then [.idDiffDel f.hdr.height] else []) ++
      fsHeaderWrites s rest

def lastHdr (l : List FsHdr) : Option FsHdr := l.getLast?

/-- everything up to and including the switch batch, then the clearing of the abandoned trees -/
def fastSyncWrites (s : Store) (p : FsParams) : List W :=
  match lastHdr p.hdrs with
  | none => []
  | some l =>
    List.replicate p.copy (.stage "id-other-key") ++ [.prelimPrefix] ++ fsHeaderWrites s p.hdrs ++
      List.replicate p.importKeys (.stage "st-other-key") ++ [.pstSave l.hdr.height l.hdr.sroot] ++
      (if l.diff then [] else [.pidSave l.hdr.height l.hdr.iroot]) ++
      [.switch (some l.hdr)] ++
      List.replicate p.clearId (.stage "id-other-key-del") ++ List.replicate p.clearSt (.stage "st-other-key-del")

/-- the same with the switch split into two writes (trees first) — what `AtomicSwitchToPreliminary` avoids -/
def fastSyncWritesUnbatched (s : Store) (p : FsParams) : List W :=
  match lastHdr p.hdrs with
  | none => []
  | some l =>
    List.replicate p.copy (.stage "id-other-key") ++ [.prelimPrefix] ++ fsHeaderWrites s p.hdrs ++
      List.replicate p.importKeys (.stage "st-other-key") ++ [.pstSave l.hdr.height l.hdr.sroot] ++
      (if l.diff then [] else [.pidSave l.hdr.height l.hdr.iroot]) ++
      [.switchTrees, .switchHead (some l.hdr)]

/-! ### class tokens (the tie with `crashdb.Classify`) -/

def joinC : List String → String
  | [] => "-"
  | l => ",".intercalate l

def natList (l : List Nat) : String := ",".intercalate (l.map toString)

/-- class token of a write *given the store it is applied to* (truncations list the versions they delete) -/
def cls (s : Store) : W → String
  | .stSave v _ => s!"st-save:{v}"
  | .idSave v _ => s!"id-save:{v}"
  | .stDel vs => s!"st-del:{natList vs}"
  | .idDel vs => s!"id-del:{natList vs}"
  | .stTrunc t => match s.st.versionsAbove t with | [] => "batch[]" | l => s!"st-del:{natList l}"
  | .idTrunc t => match s.idt.versionsAbove t with | [] => "batch[]" | l => s!"id-del:{natList l}"
  | .hdr _ => "hdr" | .head _ => "head" | .canon _ _ => "canon"
  | .newHead _ => "batch[canon+hdr+head]"
  | .idDiffSet _ => "id-diff" | .idDiffDel _ => "id-diff-del"
  | .sec => "sec" | .rmPrelim => "prelim-head-del"
  | .hdrDel _ => "hdr-del" | .canonDel _ => "canon-del"
  | .prelimHead _ => "prelim-head"
  | .stage c => c
  | .prelimPrefix => "batch[prelim-id-prefix]"
  | .pidSave v _ => s!"id-prelim-save:{v}"
  | .pstSave v _ => s!"st-other-save:{v}"
  | .switch _ => "batch[head+id-prefix+prelim-head-del+prelim-id-prefix+st-prefix]"
  | .switchTrees => "batch[id-prefix+prelim-id-prefix+st-prefix]"
  | .switchHead _ => "batch[head+prelim-head-del]"

/-- class sequence of a write list applied from `s` -/
def classes : Store → List W → List String
  | _, [] => []
  | s, w :: ws => cls s w :: classes (apply s w) ws

def isSecondary (c : String) : Bool := c = "sec"

end IdenaModel.Crash
