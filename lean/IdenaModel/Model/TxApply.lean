import IdenaModel.Model.TxValidate
/-!
# M-Ledger — `Blockchain.applyTxOnState` (`blockchain/blockchain.go:1453-1747`)

`applyTx` = nonce/epoch rule, the per-type effect (`effect`, one branch per `case` of the Go switch, steps in
source order), the common suffix (fee, tips, nonce, epoch).  A nil dereference the Go code would perform
(`*tx.To`, a nil attachment) is `none` in `effect` and `AOut.panic` in `applyTx`; `ValidateTx` excludes them.
Contract transactions: only the wrapper around `vm.Run`; the VM's verdict, gas and net balance changes are inputs.
Not modelled: public key, genetic code, tx hash / epoch height of inviter links, the identity-update-hook
metadata, stats collector calls, the StoreToIpfs post-insertion task.
-/
namespace IdenaModel.Ledger

inductive AErr
  | epoch   -- "invalid tx epoch"  (blockchain.go:1468)
  | nonce   -- "invalid tx nonce"  (blockchain.go:1479)
  deriving DecidableEq, Repr, Inhabited

inductive AOut
  | ok (s : State) (fee : Int)
  | err (e : AErr)
  | panic

/-- the new state and the fee of a successful application -/
def AOut.result : AOut → Option (State × Int)
  | .ok s fee => some (s, fee)
  | _ => none

namespace State

def resetInviter (s : State) (a : Nat) : State := s.modII a fun i => { i with inviter := none }
/-- `stateIdentity.RemoveInvitee`: drops the first entry with that address -/
def removeInvitee (s : State) (inviter a : Nat) : State :=
  s.modII inviter fun i => { i with invitees := i.invitees.erase a }

/-- `removeLinkWithInviter` (`blockchain.go:1138`) -/
def removeLinkWithInviter (s : State) (a : Nat) : State :=
  match (s.ii a).inviter with
  | none => s
  | some inv => (s.resetInviter a).removeInvitee inv a

/-- `removeLinkWithInvitees` (`blockchain.go:1147`): every invitee loses its inviter link, the list ends empty -/
def removeLinkWithInvitees (s : State) (a : Nat) : State :=
  ((s.ii a).invitees.foldl (fun st x => st.resetInviter x) s).modII a fun i => { i with invitees := [] }

/-- `removeLinksWithInviterAndInvitees` (`blockchain.go:1127`) -/
def removeLinks (s : State) (a : Nat) : State := (s.removeLinkWithInviter a).removeLinkWithInvitees a

/-- `Identity.ShiftedShardId` -/
def shiftedShard (s : State) (a : Nat) : Nat := if (s.ii a).shardId = 0 then 1 else (s.ii a).shardId

/-- `stateGlobal.DecreaseShardSize` (`state_object.go:1577`) -/
def decShardSize (s : State) (id : Nat) : State :=
  if s.g.shardSizes.get id > 0 then s.modG fun g => { g with shardSizes := g.shardSizes.upd id (· - 1) } else s
/-- `stateGlobal.IncreaseShardSize` -/
def incShardSize (s : State) (id : Nat) : State :=
  s.modG fun g => { g with shardSizes := g.shardSizes.upd id (· + 1) }

/-- `if stateDB.GetIdentityState(a).IsInShard() { stateDB.DecreaseShardSize(stateDB.ShardId(a)) }` -/
def leaveShard (s : State) (a : Nat) : State :=
  if (s.ii a).state.isInShard then s.decShardSize (s.shiftedShard a) else s

/-- `Blockchain.MinimalShard` (`blockchain.go:3076`) -/
def minimalShard (s : State) : Nat :=
  let n := if s.g.shardsNum = 0 then 1 else s.g.shardsNum
  if n = 1 then 1 else
  ((List.range n).foldl (fun (acc : Nat × Nat) i =>
      let id := i + 1
      if s.g.shardSizes.keys.contains id ∧ s.g.shardSizes.get id < acc.1 then (s.g.shardSizes.get id, id) else acc)
    (4294967295, 0)).2

/-- `stateIdentity.AddInvite` (`state_object.go:1052`, uint8 saturating at 255) -/
def addInvite (s : State) (a : Nat) : State :=
  s.modII a fun i => if i.invites = 255 then i else { i with invites := i.invites + 1 }

/-- the net balance changes the contract VM applied (`vm.Run` with `commitToEnv = true`) -/
def applyDeltas (s : State) (l : List (Nat × Int)) : State := l.foldl (fun st d => st.addBal d.1 d.2) s

/-- zero the whole stake of `a`: `SubStake(stake)`, `SubReplenishedStake(replenished)`, `SubLockedStake(locked)` -/
def clearStake (s : State) (a : Nat) : State :=
  let f := s.idf a
  ((s.addStake a (-f.stake)).addReplenished a (-f.replenished)).addLocked a (-f.locked)

end State

def toggle (l : List Nat) (a : Nat) : List Nat := if l.contains a then l.erase a else l ++ [a]

/-- `stateDelegationSwitch.ToggleDelegation` (it sets, `state_object.go:1694`) -/
def setDelegation : List (Nat × Nat) → Nat → Nat → List (Nat × Nat)
  | [], a, d => [(a, d)]
  | (x, y) :: t, a, d => if x = a then (x, d) :: t else (x, y) :: setDelegation t a d

def removeFlip : List Flip → Nat → List Flip
  | [], _ => []
  | f :: t, cid => if f.cid = cid then t else f :: removeFlip t cid

def setBit (bits b : Nat) : Nat := if (bits / 2 ^ b) % 2 = 1 then bits else bits + 2 ^ b

/-- `GetGasCost` (`blockchain.go:1757`) -/
def gasCost (fpg gasUsed : Nat) : Int := if fpg = 0 then 0 else ((fpg * gasUsed : Nat) : Int)

/-- stake that goes to a balance when an identity is terminated: the locked part is burnt
(`blockchain.go:1578-1582`, `:1634-1638`) -/
def stakeToBalance (f : IFunds) : Int := if f.locked > 0 then f.stake - f.locked else f.stake

/-- the test of `blockchain.go:1633`: the stake of a terminated delegator goes to the pool -/
def returnsStake (c : Cfg) (prev : IdState) : Bool :=
  prev.verifiedOrBetter || (c.u11 && (prev = .suspended || prev = .zombie))

/-- the wrapper around `vm.Run` for Deploy / Call / Terminate (`blockchain.go:1674-1699`); `ca` is
`vm.ContractAddr(tx, sender)`; the VM's verdict and net balance changes are inputs (`tx.ext`) -/
def contractWrapper (c : Cfg) (s : State) (tx : Tx) (ca : Nat) : State :=
  let snd := tx.sender
  let amt := tx.amount
  let pay : Bool := decide (amt > 0) && (tx.type = .call || tx.ext.isWasm)                       -- :1677
  let s1 := if pay then (s.addBal snd (-amt)).addBal ca amt else s                                -- :1680-1685
  let s2 := s1.applyDeltas tx.ext.vmDeltas                                                        -- :1686 vm.Run
  let s3 := if !tx.ext.vmSuccess && pay then (s2.addBal snd amt).addBal ca (-amt) else s2         -- :1693-1696
  if tx.ext.vmSuccess && !pay && (tx.type ≠ .terminate || c.u11) then s3.addBal snd (-amt) else s3 -- :1697-1699

section
variable (c : Cfg) (s : State) (tx : Tx)

/-- the `switch tx.Type` of `applyTxOnState`; result: new state and the gas cost added to the fee -/
def effect : Option (State × Int) :=
  let snd := tx.sender
  let amt := tx.amount
  let fpg := s.g.feePerGas
  match tx.type with
  | .activation =>                                                           -- :1491-1531
    let x := s.balance snd - calcCost s.g.headNetSize fpg tx
    let s1 := (s.addBal snd (-x)).setIdState snd .killed
    match tx.to with
    | none => none
    | some r =>
      let s2 := (s1.setIdState r .candidate).addBal r x
      let shard := s2.minimalShard
      let s3 := (s2.modII r fun i => { i with shardId := shard }).incShardSize shard
      match (s3.ii snd).inviter with
      | none => some (s3, 0)
      | some inv =>
        let s4 := s3.removeLinkWithInviter snd
        if inv = s4.g.godAddress ∨ (s4.ii inv).state.verifiedOrBetter then
          some ((s4.modII inv fun i => { i with invitees := i.invitees ++ [r] }).modII r
                  (fun i => { i with inviter := some inv }), 0)
        else some (s4, 0)
  | .send =>                                                                 -- :1532-1536
    match tx.to with
    | none => none
    | some r => some ((s.addBal snd (-amt)).addBal r amt, 0)
  | .burn =>                                                                 -- :1537-1547
    let s1 := s.addBal snd (-amt)
    if c.u10 ∧ amt > 0 then
      if tx.ext.attach then some (s1.modG fun g => { g with burnt := g.burnt ++ [(snd, amt)] }, 0) else none
    else some (s1, 0)
  | .invite =>                                                               -- :1548-1564
    let s1 := if snd = s.g.godAddress then s.modG fun g => { g with godInvites := (g.godInvites + 65535) % 65536 }
              else s.modII snd fun i => { i with invites := (i.invites + 255) % 256 }
    let s2 := s1.addBal snd (-amt)
    match tx.to with
    | none => none
    | some r => some (((s2.setIdState r .invite).addBal r amt).modII r fun i => { i with inviter := some snd }, 0)
  | .kill =>                                                                 -- :1565-1587
    let s1 := ((s.removeLinks snd).leaveShard snd).setIdState snd .killed
    let s2 := s1.apprRemove snd
    let f := s2.idf snd
    some ((s2.clearStake snd).addBal snd (stakeToBalance f), 0)
  | .killInvitee =>                                                          -- :1588-1611
    match tx.to with
    | none => none
    | some r =>
      let s1 := (((s.removeLinks r).leaveShard r).setIdState r .killed).apprRemove r
      let s2 := if c.u12 then s1.clearStake r else s1
      some (if snd ≠ s2.g.godAddress ∧ (s2.ii snd).state.verifiedOrBetter then s2.addInvite snd else s2, 0)
  | .killDelegator =>                                                        -- :1612-1642
    match tx.to with
    | none => none
    | some r =>
      let s0 := s.removeLinks r
      let prev := (s0.ii r).state
      let s1 := ((s0.leaveShard r).setIdState r .killed).apprRemove r
      let f := s1.idf r
      let s2 := s1.clearStake r
      some (if returnsStake c prev then s2.addBal snd (stakeToBalance f) else s2, 0)
  | .submitFlip =>                                                           -- :1643-1647
    if tx.ext.attach then
      some (s.modII snd fun i =>
        if i.flips.length < 255 then { i with flips := i.flips ++ [{ cid := tx.ext.cid, pair := tx.ext.pair }] } else i, 0)
    else none
  | .onlineStatus =>                                                         -- :1648-1655
    if s.g.delayedPenalties.contains snd then
      some (s.modG fun g => { g with delayedPenalties := g.delayedPenalties.erase snd }, 0)
    else some (s.modG fun g => { g with statusSwitch := toggle g.statusSwitch snd }, 0)
  | .changeGodAddress =>                                                     -- :1656-1659
    match tx.to with
    | none => none
    | some r => some (s.modG fun g => { g with godAddress := r }, 0)
  | .changeProfile =>                                                        -- :1660-1664
    if tx.ext.attach then some (s.modII snd fun i => { i with profileHash := tx.ext.profileHash }, 0) else none
  | .deleteFlip =>                                                           -- :1665-1669
    if tx.ext.attach then some (s.modII snd fun i => { i with flips := removeFlip i.flips tx.ext.cid }, 0) else none
  | .answersHash | .shortAnswers | .evidence | .longAnswers =>               -- :1670-1673
    match validationBit tx.type with
    | some b => some (s.modII snd fun i => { i with validationBits := setBit i.validationBits b }, 0)
    | none => some (s, 0)
  | .deploy | .call | .terminate =>                                          -- :1674-1702
    let caddr? : Option Nat := if tx.type = .deploy then some tx.ext.contractAddr else tx.to
    match caddr? with
    | none => none
    | some ca => some (contractWrapper c s tx ca, gasCost fpg tx.ext.vmGasUsed)
  | .delegate =>                                                             -- :1703-1706
    match tx.to with
    | none => none
    | some r => some (s.modG fun g => { g with delegationSwitch := setDelegation g.delegationSwitch snd r }, 0)
  | .undelegate =>                                                           -- :1707-1710
    some (s.modG fun g => { g with delegationSwitch := setDelegation g.delegationSwitch snd 0 }, 0)
  | .storeToIpfs => some (s, 0)                                              -- :1711-1722
  | .replenishStake =>                                                       -- :1723-1733
    match tx.to with
    | none => none
    | some r =>
      let thr := s.g.discriminationThreshold
      let prevDisc := decide (thr ≠ 0) && isDiscriminatedStake (s.ii r) (s.idf r) thr && (s.rg r).discriminated
      let s1 := ((s.addBal snd (-amt)).addStake r amt).addReplenished r amt
      some (if prevDisc && !isDiscriminated (s1.ii r) (s1.idf r) thr s.g.epoch
            then s1.modG fun g => { g with discriminationSwitch := g.discriminationSwitch ++ [r] } else s1, 0)
  | .unknown => some (s, 0)

/-- the common suffix of `applyTxOnState` (`blockchain.go:1736-1742`): fee, tips, nonce, epoch -/
def finish (s1 : State) (fee : Int) : State :=
  let snd := tx.sender
  let s2 := (s1.addBal snd (-fee)).addBal snd (-tx.tips)                   -- :1736-1737
  let s3 := s2.modAM snd fun m => { m with nonce := tx.nonce }             -- :1738
  if (s3.am snd).epoch ≠ tx.epoch                                          -- :1740-1742
  then s3.modAM snd fun m => { m with epoch := tx.epoch } else s3

/-- `applyTxOnState` -/
def applyTx : AOut :=
  if tx.epoch ≠ s.g.epoch then .err .epoch                                   -- :1468
  else if (curNonce s tx.sender + 1) % 2 ^ 32 ≠ tx.nonce then .err .nonce    -- :1473-1482 (uint32 arithmetic)
  else
    match effect c s tx with
    | none => .panic
    | some (s1, extra) =>
      let fee := calcFee s.g.headNetSize s.g.feePerGas tx + extra            -- :1485, :1701
      .ok (finish tx s1 fee) fee

end

end IdenaModel.Ledger
