/-
M-BlockValidate (C03): `validateBlock` / `ValidateHeader` of blockchain.go:2304-2392, 2788-2842 for a proposed
block as a sequence of comparisons of header fields with values the validator recomputes from its own state, the
block body, the proposer key and the timestamp; `addBlock` as validate-then-commit.  Values are abstract (`Nat`);
the recomputation functions are parameters (they are the Go functions both the proposer and the validator call).
Core Lean only.
-/
namespace IdenaModel.BlockValidate

/-- fields of `types.ProposedHeader` (types.go:114) -/
inductive Field where
  | parentHash | height | time | txHash | proposerPubKey | root | identityRoot | flags | ipfsHash
  | offlineAddr | txBloom | blockSeed | feePerGas | upgrade | seedProof | txReceiptsCid
  deriving DecidableEq, Repr

/-- the fields the protocol derives from other data (the property's list) -/
def derived : List Field :=
  [.parentHash, .height, .txHash, .root, .identityRoot, .flags, .ipfsHash, .txBloom, .blockSeed, .seedProof,
   .txReceiptsCid, .feePerGas]

/-- free choices of the proposer: key (subject to eligibility), time (subject to the window), offline
report, upgrade bits -/
def free : List Field := [.proposerPubKey, .time, .offlineAddr, .upgrade]

abbrev Hdr := Field → Nat

/-- what a validator knows: its head and state (abstracted into the recomputation functions below) -/
structure Ctx where
  prevHash : Nat
  prevHeight : Nat
  prevTime : Nat
  now : Nat
  minDelay : Nat
  maxFuture : Nat
  stateFee : Nat                      -- FeePerGas of the check state
  eligible : Nat → Bool               -- checkIfProposer on the key's address
  keyValid : Nat → Bool               -- pubkey unmarshals, coinbase ≠ 0
  vrf : Nat → Nat → Option Nat        -- key, proof ↦ hash (ProofToHash over the seed data of prev)
  upgradeOk : Nat → Bool
  txHashOf : Nat → Nat                -- DeriveSha body
  cidOf : Nat → Nat                   -- ipfs cid of body
  /-- processTxs + applyBlockOnState on the check state: from (body, key, time, offline report, persistent flags are
  recomputed separately) to `none` (a transaction is refused) or the recomputed
  (bloom, persistent flags, root, identityRoot, receiptsCid) -/
  exec : Nat → Nat → Nat → Nat → Option (Nat × Nat × Nat × Nat × Nat)

inductive Verdict where
  | ok
  | err (field : Option Field)   -- the field whose check failed (none: body / eligibility / window checks)
  deriving DecidableEq, Repr

/-- one check: continue with `k` when `b` holds, else the verdict is `.err f` -/
def chk (b : Bool) (f : Option Field) (k : Verdict) : Verdict := if b then k else .err f

/-- checks in source order; the first failing one is the verdict -/
def validateBlock (c : Ctx) (h : Hdr) (body : Nat) : Verdict :=
  chk (h .height == c.prevHeight + 1) (some .height) <|
  chk (h .parentHash == c.prevHash) (some .parentHash) <|
  chk (decide (h .time ≤ c.now + c.maxFuture)) (some .time) <|
  chk (decide (c.prevTime + c.minDelay ≤ h .time)) (some .time) <|
  chk (c.keyValid (h .proposerPubKey)) (some .proposerPubKey) <|
  chk (c.vrf (h .proposerPubKey) (h .seedProof) == some (h .blockSeed)) (some .blockSeed) <|
  chk (c.upgradeOk (h .upgrade)) (some .upgrade) <|
  chk (h .feePerGas == 0 || h .feePerGas == c.stateFee) (some .feePerGas) <|
  chk (c.eligible (h .proposerPubKey)) (some .proposerPubKey) <|
  chk (c.txHashOf body == h .txHash) (some .txHash) <|
  match c.exec body (h .proposerPubKey) (h .time) (h .offlineAddr) with
    | none => .err none
    | some (bloom, flags, root, iroot, rcid) =>
      chk (bloom == h .txBloom) (some .txBloom) <|
      chk (flags == h .flags) (some .flags) <|
      chk (root == h .root) (some .root) <|
      chk (iroot == h .identityRoot) (some .identityRoot) <|
      chk (c.cidOf body == h .ipfsHash) (some .ipfsHash) <|
      chk (rcid == h .txReceiptsCid) (some .txReceiptsCid) .ok

/-- the node: head + committed store (abstract) -/
structure Node where
  head : Nat
  store : Nat

/-- `AddBlock`: validate on a private view; only on success commit (C13 gives the isolation of the view) -/
def addBlock (c : Ctx) (n : Node) (h : Hdr) (body : Nat) (commit : Node → Hdr → Nat → Node) : Verdict × Node :=
  match validateBlock c h body with
  | .ok => (.ok, commit n h body)
  | e => (e, n)

def setField (h : Hdr) (f : Field) (v : Nat) : Hdr := fun g => if g = f then v else h g

end IdenaModel.BlockValidate
