/-
M-Store, part 1: the copy-on-write overlay of `database/backed_mem_db.go` + `backed_mem_batch.go`
and the ordinary sorted store (tm-db MemDB) it is meant to behave like.

Keys are `Nat` (the driver embeds byte strings order-preservingly, see `Drivers/C13.lean`),
values are opaque strings.  Core Lean only.
-/
namespace IdenaModel.Store

-- keys are `Nat` (written out: `omega` does not unfold an abbreviation of the carrier type)
abbrev Val := String
abbrev KV := List (Nat × Val)

/-- strictly ascending keys: the shape of a MemDB (btree) dump -/
def Sorted (m : KV) : Prop := m.Pairwise (fun a b => a.1 < b.1)

def kvGet : KV → Nat → Option Val
  | [], _ => none
  | (k', v') :: t, k => if k = k' then some v' else kvGet t k

def kvSet : KV → Nat → Val → KV
  | [], k, v => [(k, v)]
  | (k', v') :: t, k, v =>
    if k < k' then (k, v) :: (k', v') :: t
    else if k = k' then (k, v) :: t
    else (k', v') :: kvSet t k v

def kvDel : KV → Nat → KV
  | [], _ => []
  | (k', v') :: t, k => if k = k' then t else (k', v') :: kvDel t k

/-- tm-db domain: `lo` inclusive, `hi` exclusive, `none` = unbounded -/
def inRange (lo hi : Option Nat) (k : Nat) : Bool :=
  (match lo with | none => true | some l => decide (l ≤ k)) &&
  (match hi with | none => true | some h => decide (k < h))

def kvRange (m : KV) (lo hi : Option Nat) : KV := m.filter (fun p => inRange lo hi p.1)

/-- one entry of a write batch.  `bad k` is a `Set(k, nil)`: the underlying batch refuses it
(`errValueNil`), so an ordinary store is unchanged by it. -/
inductive BOp where
  | set (k : Nat) (v : Val)
  | del (k : Nat)
  | bad (k : Nat)
  deriving Repr, DecidableEq

def kvApplyB (m : KV) : BOp → KV
  | .set k v => kvSet m k v
  | .del k => kvDel m k
  | .bad _ => m

inductive Op where
  | get (k : Nat)
  | has (k : Nat)
  | set (k : Nat) (v : Val)
  | del (k : Nat)
  | batch (ops : List BOp)
  | iter (lo hi : Option Nat)
  | riter (lo hi : Option Nat)
  deriving Repr

inductive Res where
  | val (v : Option Val)
  | bool (b : Bool)
  | ok
  | kvs (l : KV)
  deriving Repr, DecidableEq

/-! ### the ordinary store -/

def plainStep (m : KV) : Op → KV × Res
  | .get k => (m, .val (kvGet m k))
  | .has k => (m, .bool (kvGet m k).isSome)
  | .set k v => (kvSet m k v, .ok)
  | .del k => (kvDel m k, .ok)
  | .batch ops => (ops.foldl kvApplyB m, .ok)
  | .iter lo hi => (m, .kvs (kvRange m lo hi))
  | .riter lo hi => (m, .kvs (kvRange m lo hi).reverse)

def plainRun : KV → List Op → List Res
  | _, [] => []
  | m, op :: ops => (plainStep m op).2 :: plainRun (plainStep m op).1 ops

/-! ### the overlay (`BackedMemDb`) -/

structure Overlay where
  inner : KV
  touched : List Nat
  perm : KV
  deriving Repr

def Overlay.isTouched (o : Overlay) (k : Nat) : Bool := o.touched.contains k

def Overlay.get (o : Overlay) (k : Nat) : Option Val :=
  if o.isTouched k then kvGet o.inner k else kvGet o.perm k

/-- `iterator.Next` of backed_mem_db.go unrolled into the produced list.  `rev = false`: ascending
(`compare a b := a ≤ b`), `rev = true`: descending (`a ≥ b`).  `ik` = the inner keys collected up
front, `pm` = what the permanent iterator still has to yield.  The value of an inner key is read
through `db.Get` (hence through the touched test), the value of a permanent key is the iterator's. -/
def merged (rev : Bool) (touched : Nat → Bool) (getv : Nat → Option Val) : List Nat → KV → KV
  | [], [] => []
  | i :: is, [] => (i, (getv i).getD "") :: merged rev touched getv is []
  | [], p :: ps =>
    if touched p.1 then merged rev touched getv [] ps else p :: merged rev touched getv [] ps
  | i :: is, p :: ps =>
    if (if rev then p.1 ≤ i else i ≤ p.1) then
      if i = p.1 then (i, (getv i).getD "") :: merged rev touched getv is ps
      else (i, (getv i).getD "") :: merged rev touched getv is (p :: ps)
    else if touched p.1 then merged rev touched getv (i :: is) ps
    else p :: merged rev touched getv (i :: is) ps
termination_by is ps => is.length + ps.length

def Overlay.iter (o : Overlay) (rev : Bool) (lo hi : Option Nat) : KV :=
  let ik := (kvRange o.inner lo hi).map (·.1)
  let pm := kvRange o.perm lo hi
  merged rev o.isTouched o.get (if rev then ik.reverse else ik) (if rev then pm.reverse else pm)

def bopKey : BOp → Option Nat
  | .set k _ => some k
  | .del k => some k
  | .bad _ => none      -- repaired code: a refused entry is not recorded (see DESIGN F16)

def Overlay.step (o : Overlay) : Op → Overlay × Res
  | .get k => (o, .val (o.get k))
  | .has k => (o, .bool (o.get k).isSome)
  | .set k v => ({ o with inner := kvSet o.inner k v, touched := k :: o.touched }, .ok)
  | .del k => ({ o with inner := kvDel o.inner k, touched := k :: o.touched }, .ok)
  | .batch ops =>
    ({ o with inner := ops.foldl kvApplyB o.inner,
              touched := (ops.filterMap bopKey).reverse ++ o.touched }, .ok)
  | .iter lo hi => (o, .kvs (o.iter false lo hi))
  | .riter lo hi => (o, .kvs (o.iter true lo hi))

def Overlay.run : Overlay → List Op → List Res
  | _, [] => []
  | o, op :: ops => (o.step op).2 :: Overlay.run (o.step op).1 ops

def Overlay.init (perm : KV) : Overlay := { inner := [], touched := [], perm := perm }

/-- the behaviour of the code as found (before the F16 repair): a refused batch entry still
marks its key as touched when the batch is written. -/
def bopKeyAsFound : BOp → Option Nat
  | .set k _ => some k
  | .del k => some k
  | .bad k => some k

def Overlay.stepAsFound (o : Overlay) : Op → Overlay × Res
  | .batch ops =>
    ({ o with inner := ops.foldl kvApplyB o.inner,
              touched := (ops.filterMap bopKeyAsFound).reverse ++ o.touched }, .ok)
  | op => o.step op

end IdenaModel.Store

namespace IdenaModel.Store

/-! ### batches as objects: staging interleaved with other operations

`backedMemBatch` buffers `Set`/`Delete` calls; only `Write` applies them (and marks their keys as touched).
Reads between staging and `Write`, and batches closed without `Write`, must not see anything of the batch. -/

inductive XOp where
  | op (o : Op)            -- any operation of part 1 (incl. an atomic batch)
  | bnew                   -- `NewBatch`
  | bstage (b : BOp)       -- `batch.Set` / `batch.Delete` (`.bad` = refused entry)
  | bwrite                 -- `batch.Write` (+ `Close`): apply the staged entries
  | bclose                 -- `batch.Close` without writing
  deriving Repr

structure Staged (σ : Type) where
  st : σ
  staged : Option (List BOp)

/-- a store machine extended with one batch object; `step` is the machine of part 1 -/
def xstep {σ : Type} (step : σ → Op → σ × Res) (w : Staged σ) : XOp → Staged σ × Res
  | .op o => let r := step w.st o; ({ w with st := r.1 }, r.2)
  | .bnew => ({ w with staged := some [] }, .ok)
  | .bstage b => match w.staged with
    | some l => ({ w with staged := some (l ++ [b]) }, .ok)
    | none => (w, .ok)
  | .bwrite => match w.staged with
    | some l => let r := step w.st (.batch l); ({ st := r.1, staged := none }, r.2)
    | none => (w, .ok)
  | .bclose => ({ w with staged := none }, .ok)

def xrun {σ : Type} (step : σ → Op → σ × Res) : Staged σ → List XOp → List Res
  | _, [] => []
  | w, o :: os => (xstep step w o).2 :: xrun step (xstep step w o).1 os

end IdenaModel.Store
