"""Texts for MANIFEST.json per claimed property."""
NOT_YET = {}
META = {
    "C13": {
        "text": "Refinement theorem in Lean 4 (all base contents, all operation sequences, both iteration directions): the copy-on-write store answers exactly like an ordinary store pre-loaded with the base and never writes the base; tied to database/backed_mem_db.go by differential runs of the real BackedMemDb against the compiled Lean model and by an independent Go reference store.",
        "design_ref": "DESIGN.md 5 (C13), 4 (M-Store)",
        "note": "Trusted: Lean kernel (+propext, Classical.choice, Quot.sound), tm-db MemDB as a sorted map, the Go harness and overlay. Not covered by the theorem: concurrent use of one view.",
        "technique": "Lean 4 refinement proof (simulation relation + merged-iterator lemma) + differential correspondence against the real Go code",
    },
}
