"""Collects per-property configuration from checks/props/Cxx.py (each defines PROP and META).

PROP keys: modules (Lean modules holding the property theorems), theorems (fully qualified names audited with
#print axioms), channels ([{name, exe}] harness channel + Lean driver executable; exe None = oracle-only channel),
generated ([{module, extractor}] Lean tables regenerated from /repo), shim_tags (extra shim tags to include in the
overlay besides `common` and the property's own tag), trusted_base, assumptions, level.
META keys: text, design_ref, note, technique (for MANIFEST.json)."""
import glob, importlib.util, os

PROPS, META = {}, {}
for f in sorted(glob.glob(os.path.join(os.path.dirname(os.path.abspath(__file__)), "props", "C*.py"))):
    pid = os.path.basename(f)[:-3]
    spec = importlib.util.spec_from_file_location("prop_" + pid, f)
    m = importlib.util.module_from_spec(spec)
    spec.loader.exec_module(m)
    PROPS[pid] = m.PROP
    META[pid] = m.META
