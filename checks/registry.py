"""Per-property configuration of ./check: Lean modules + property theorems to audit, correspondence channels
(harness channel name, Lean driver executable), generated tables, trusted-base additions."""

PROPS = {
    "C13": {
        "modules": ["IdenaModel.Props.C13"],
        "theorems": [
            "IdenaModel.Store.overlay_refines",
            "IdenaModel.Store.iter_eq",
            "IdenaModel.Store.overlay_perm_unchanged",
            "IdenaModel.Store.overlay_perm_unchanged_run",
            "IdenaModel.Store.overlay_as_found_counterexample",
        ],
        "channels": [{"name": "C13", "exe": "oracle_c13"}],
        "trusted_base": [
            "tm-db MemDB (third party) modelled as a strictly sorted association list; its argument checks (empty key, nil value, empty bound) are mirrored in the Lean driver glue, not in the theorem",
            "byte-string keys embedded order-preservingly into Nat by the driver (keys <= 8 bytes)"],
        "assumptions": ["sequential use of one view (the Go type has a mutex only around nothing; concurrency is out of the model)"],
    },
}
