PROP = {
    "modules": ["IdenaModel.Props.C19"],
    "theorems": [
        "IdenaModel.RpcGate.gate",
        "IdenaModel.RpcGate.gate_outcomes",
        "IdenaModel.RpcGate.gate_no_member",
        "IdenaModel.RpcGate.gate_batch",
        "IdenaModel.RpcGate.gate_batch_all",
        "IdenaModel.RpcGate.batch_pointwise",
        "IdenaModel.RpcGate.unkeyed_session_inert",
        "IdenaModel.RpcGate.unkeyed_elements_inert",
        "IdenaModel.RpcGate.keyed_as_ungated",
        "IdenaModel.RpcGate.keyed_in_batch_served_as_alone",
        "IdenaModel.RpcGate.wellformed_gets_invalid_key_error",
        "IdenaModel.RpcGate.wellformed_gets_invalid_key_error_batch",
        "IdenaModel.RpcGate.gate_before_every_branch",
        "IdenaModel.RpcGate.node_key_nonempty",
        "IdenaModel.RpcGate.node_gate",
    ],
    "channels": [{"name": "C19", "exe": "oracle_c19"}],
    "trusted_base": [
        "encoding/json (standard library) modelled through its documented struct-decoding rules: case-insensitive member match, last string wins, null is a no-op, a type mismatch fails the message; the abstraction text -> abstract members is made by the harness renderer and exercised differentially (case/Kelvin-sign/escape variants, duplicates, near-miss names)",
        "service method bodies are parameters: an invocation is a log entry; subscription methods follow the documented pattern (NotifierFromContext, CreateSubscription)",
        "config.SetApiKey's random key (16 bytes of a fresh ECDSA key in hex) is a non-empty parameter of the model; strings.TrimSpace modelled for ASCII white space",
        "(G) facts (statement order of the readRequest loop, first statement of handle, call sites on the path to Func.Call, flow of the configured key into rpc.NewServer) are extracted with go/ast by the harness at run time and checked by the compiled Lean driver, not by the kernel",
        "golang.org/x/net/websocket, net/http, net.Pipe as transports",
    ],
    "assumptions": [
        "the node exposes RPC only through rpc.StartHTTPEndpoint (node/node.go:351,:381), which passes the configured key to NewServer; StartWSEndpoint/StartIPCEndpoint construct key-less servers but have no caller in /repo (WebSocket/IPC are exercised on a keyed Server through WebsocketHandler/ServeCodec/ServeListener)",
        "one message at a time per connection (concurrent messages on one connection are executed in separate goroutines by the server; their interleaving is out of the model)",
    ],
}
META = {
    "text": "Lean 4 model of the JSON-RPC request path (json.go parseRequest/parseBatchRequest, server.go readRequest/handle/exec/execBatch) for an arbitrary service registry: theorems that with a non-empty key every request whose effective key member differs is answered by an error, runs no method and changes no subscription, alone or at any batch position (gate, gate_batch), that well-formed ones get exactly -32800, that unkeyed batch elements are inert and keyed ones are served exactly as when sent alone; tied to /repo by differential runs of the real rpc.Server over HTTP (StartHTTPEndpoint), WebSocket, in-process pipe and unix socket against the compiled model, an independent Go oracle of the property statement, and run-time extracted facts on the statement order of readRequest.",
    "design_ref": "DESIGN.md 5 (C19), 2.7 (encoding/json note)",
    "note": "Trusted: Lean kernel (+propext, Classical.choice, Quot.sound), encoding/json decoding rules as stated, the Go harness (renderer = abstraction function, go/ast extractor). WS/IPC endpoints are not started by the node; the gate is checked on them through the shared Server.",
    "technique": "Lean 4 proof over an executable model (case analysis + list induction, pointwise batch semantics) + differential correspondence against the real Go server on four transports + run-time go/ast fact extraction",
}
