_L = "IdenaModel.Ledger."
PROP = {
    # the three Props modules of the transaction-level ledger model (M-Ledger); C04Tx / C06Tx carry the
    # transaction-level theorems the history-level checks of C04 and C06 build on
    "modules": ["IdenaModel.Props.C05", "IdenaModel.Props.C04Tx", "IdenaModel.Props.C06Tx"],
    "theorems": [_L + t for t in [
        # Props/C05.lean
        "applyTx_others_not_lowered", "applyTx_unrelated_not_lowered", "contract_tx_only_vm_lowers",
        "fundsEffect_others", "validateTx_no_panic", "validated_apply_no_panic", "effect_keeps", "applyTx_ok", "validate_common",
        # Props/C04Tx.lean
        "applyTx_inv", "applyTx_inv_contract", "applyTx_total_le", "fundsEffect_inv", "fundsEffect_total_le",
        "applyTx_inv_needs_HeadOk", "exState_inv",
        # Props/C06Tx.lean
        "apply_needs_next", "apply_needs_next_nowrap", "apply_sets_nonce", "applyTx_epochInv", "curNonce_mono",
        "replay_rejected_tx", "replay_rejected_immediately", "replay_rejected_later_epoch", "replay_after_steps",
        "nonce_wraps_at_uint32",
    ]],
    "channels": [{"name": "C05", "exe": "oracle_c05"}],
    "trusted_base": [
        "sender_is_recovered_signer: the model's tx.sender stands for the address recovered from the signature (ECDSA recovery is a parameter; that the signature binds every signed field is C18's theorem). Tie to the code: the Go oracle does not trust types.Sender — it recovers the signer from the serialised bytes on a fresh object (dtx.WireSigner), cross-checks it with the key the generator signed with, and requires the node's reported sender and every debited account to be that signer, or nobody for unrecoverable signature bytes (signatures C05:unsigned-tx-accepted, C05:debited-account-is-not-the-signer, C05:reported-sender-is-not-the-signer), in D-tx and through mempool -> ProposeBlock -> AddBlock on a chainfx world with a funded zero address",
        "results of code outside the model are inputs on the operation line, computed by the harness with the same library calls the validators make: attachments.ParseXxx, crypto.PubKeyBytesToAddress, cid.Parse / cid.Cast, the VRF proof check of long answers, fee.CalculateGas (serialized size), embedded.AvailableContracts membership",
        "contract VM (vm.VM): only the wrapper of applyTxOnState is modelled; IsWasm, ContractAddr, receipt.Success, receipt.GasUsed and the net balance changes of vm.Run are inputs (a fake VM in the harness); VmOk in Props/C04Tx.lean names what C15 has to supply",
        "validators cache answers (IsValidated, IsOnlineIdentity, IsDiscriminated, IsPool, NetworkSize) are read from the real cache built from a committed identity-state tree and passed as registry bits",
        "not modelled (no funds, no relationship, no replay counter): public key, genetic code, tx hash / epoch height stored in inviter links, identity-update-hook metadata, stats collector, StoreToIpfs post-insertion task, existence of empty state objects, uint32 overflow of shard sizes",
        "shopspring/decimal DivRound(16) + truncation in ValidateFee modelled by exact integer arithmetic (divRound16)",
    ],
    "assumptions": [
        "C05 / C04Tx theorems: the signer's balance (C05) resp. the whole state (C04Tx: Inv) is non-negative before the transaction — a consequence of C04 for reachable states",
        "C04Tx: HeadOk — the head validators view used by getTxFee/getTxCost is empty whenever the checked state's view is (same view during block processing); applyTx_inv_needs_HeadOk shows the hypothesis is necessary (F9)",
        "C04Tx contract types: VmOk / deltaSum <= 0 (obligations of the contract VM, property C15)",
        "C06Tx: NoWrap — fewer than 2^32-1 transactions of one sender per epoch (nonce_wraps_at_uint32 shows the uint32 wrap otherwise); EpochInv (account epoch <= global epoch) is proved preserved by applyTx",
    ],
}
META = {
    "text": "Lean 4 theorem over the executable transaction model M-Ledger (ValidateTx clause by clause for all 23 types, applyTxOnState for all 23 types incl. the contract wrapper): for all configurations, states and transactions, a validated and applied transaction lowers the balance or stake of an address other than its recovered signer only when an inviter terminates its own invitee, a pool terminates its own delegator, or inside a contract transaction where the wrapper itself debits nobody but the signer (only a negative VM delta lowers anybody). Tied to blockchain/validation/validation.go and Blockchain.applyTxOnState by differential runs of the real code (verdict kind in three modes, fee, full post-state of every touched address and the globals) against the compiled model, and by an independent Go oracle over per-address (balance, stake) deltas of every live state object. The same modules carry the transaction-level theorems of C04 (invariant, total never grows) and C06 (next-nonce rule, no replay).",
    "design_ref": "DESIGN.md 5 (C05, C04, C06), 4 (M-Ledger), Appendix A",
    "note": "Trusted: Lean kernel (+propext, Classical.choice, Quot.sound), signature recovery, attachment parsers / cid / VRF / gas size as inputs, the contract VM as an input (wrapper only), the Go harness and overlay. Hypotheses: signer's balance non-negative (C04), HeadOk (F9), NoWrap (uint32 nonce).",
    "technique": "Lean 4 proofs by case analysis over the transaction types on an executable model + differential correspondence against the real Go code + independent per-address delta oracle",
}
