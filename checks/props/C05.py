PROP = {
    "modules": ["IdenaModel.Props.C05", "IdenaModel.Props.C04Tx", "IdenaModel.Props.C06Tx"],
    "theorems": [],
    "channels": [{"name": "C05", "exe": "oracle_c05"}],
    "trusted_base": [],
    "assumptions": [],
}
META = {"text": "", "design_ref": "DESIGN.md 5 (C05), 4 (M-Ledger), Appendix A", "note": "", "technique": ""}
