PROP = {
    "modules": ["IdenaModel.Props.C07"],
    "theorems": [
        "IdenaModel.Cert.cert_ok_iff",
        "IdenaModel.Cert.cert_sound",
        "IdenaModel.Cert.block_cert_sound",
        "IdenaModel.Cert.cert_ok_congr",
        "IdenaModel.Cert.dup_forged_outsider_dont_count",
        "IdenaModel.Cert.cert_complete",
        "IdenaModel.Cert.countVotes_emits_valid",
        "IdenaModel.Cert.committee_deterministic",
        "IdenaModel.Cert.determine_order_irrelevant",
        "IdenaModel.Cert.committee_subset",
        "IdenaModel.Cert.original_card",
        "IdenaModel.Cert.committee_god_mode",
        "IdenaModel.Cert.required_can_be_zero",
        "IdenaModel.Cert.empty_cert_ok_of_required_le_zero",
        "IdenaModel.Cert.committee_exists",
        "IdenaModel.Cert.validate_never_panics",
        "IdenaModel.Cert.addVote_store_round",
        "IdenaModel.Cert.load_sorted_strictDesc",
        "IdenaModel.Cert.countVotes_panic_only_if",
        "IdenaModel.Cert.required_nonneg_of_approved",
        "IdenaModel.Cert.countVotes_never_panics",
    ],
    "channels": [{"name": "C07", "exe": "oracle_c07"}],
    "trusted_base": [
        "ECDSA/secp256k1 public-key recovery + PubKeyBytesToAddress as a parameter `recover : sig -> msg -> Option addr` "
        "(the harness puts the address the REAL recovery yields on every op line); law assumed only by cert_complete: "
        "recover (sign k m) m = addr k (checked per untampered signature on every run: `law-violated`)",
        "Keccak/SHA3 vote hash and block hash: injective (hashes are compared as interned identifiers; a vote's identity "
        "is (signed fields, voter))",
        "Go math/rand: rand.Perm(n) returns a permutation of 0..n-1 (PermLaw); the permutation itself is computed by the "
        "harness with the code's seed derivation and cross-checked through the committee the real code draws",
        "IEEE-754 binary64 multiplication + math.Round modelled as exact integer arithmetic (mulRound); checked against the "
        "real GetCommitteeSize / GetCommitteeVotesThreshold / VotesCountSubtrahend for every cnt <= 200000 (thorough; quick: "
        "every cnt <= 20000 and every cnt = 5 mod 10 up to 200000), v <= 1000, four consensus versions",
        "IAVL identity tree iterates in ascending key order; mapset.Set / Go maps as duplicate-free lists; sync.Map.Range "
        "visits every stored vote (enumeration order arbitrary: quantified in the theorem)",
    ],
    "assumptions": [
        "fewer than MaxKnownVotes = 10000 known votes (no eviction from knownVotes) in the admission model",
        "countVotes is called with the threshold for final = (step == Final), as at all five call sites of engine.go",
        "fast-sync path of countVotes_emits_valid: the zero address is not an approved committee member",
        "required <= 0 (finding F11: e.g. all validators discriminated) is the protocol's formula, not a violation: then a "
        "certificate without any looked-at signature is accepted whatever round/hash it names (proved: required_can_be_zero)",
    ],
}
META = {
    "text": "Lean 4 theorems over an executable model of ValidateBlockCert / GetOnlineValidators / countVotes / AddVote: exact acceptance predicate (accepted iff committee exists, every looked-at signature recovers to an approved member of the drawn committee under the header rebuilt from the certificate, round and hash are the block's, and the number of distinct voters >= threshold - subtrahend), duplicates never raise the count, forged/outsider/other-round signatures reject, genuine quorums are accepted (signature law), every certificate the vote counter can emit (all poll sequences, enumeration and map orders) is accepted, the committee is independent of enumeration orders with |Original| = limit; tied to the Go code by differential runs of the real functions with real secp256k1 signatures, a full table of the float formulas, and an independent ground-truth oracle.",
    "design_ref": "DESIGN.md 5 (C07), 2.7 (float formulas), 4 (M-Registry, own copy in Model/Cert.lean)",
    "note": "Trusted: Lean kernel (+propext, Classical.choice, Quot.sound), signature recovery / hashes / rand.Perm as parameters with stated laws, the Go harness and overlay. required can be 0 or -1 (F11) - documented, proved as required_can_be_zero. knownVotes eviction not modelled.",
    "technique": "Lean 4 proof (loop invariants, exact characterisation of the acceptance predicate, invariant of the vote counter over all enumeration orders) + differential correspondence against the real Go code + generated table of float formulas + independent Go ground-truth oracle",
}
