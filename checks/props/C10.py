PROP = {
    "modules": ["IdenaModel.Props.C10"],
    "theorems": [
        "IdenaModel.Registry.update_eq_load_diffWF",
        "IdenaModel.Registry.update_eq_load",
        "IdenaModel.Registry.updates_eq_load",
        "IdenaModel.Registry.update_no_panic",
        "IdenaModel.Registry.update_ne_load_nonWF",
        "IdenaModel.Registry.rebuildSorted_perm",
        "IdenaModel.Registry.forkCommitteeSize_perm",
        "IdenaModel.Registry.update_enum_irrelevant",
        "IdenaModel.Registry.precommitDiff_nodup",
        "IdenaModel.Registry.precommitDiff_descending",
        "IdenaModel.Registry.wf_preserved",
        "IdenaModel.Registry.history_wf",
        "IdenaModel.Registry.history_cache_eq_rebuild",
        "IdenaModel.Registry.guard_needed_statusSwitch",
        "IdenaModel.Registry.guard_needed_epochValidated",
        "IdenaModel.Registry.registry_matches_ledger_partial",
        "IdenaModel.Registry.online_not_delegator",
    ],
    "channels": [{"name": "C10", "exe": "oracle_c10"}, {"name": "C10H", "exe": "oracle_c10"}],
    "trusted_base": [
        "IAVL tree of the identity state modelled as a strictly sorted association list (IterateIdentities ascending by key)",
        "20-byte addresses embedded order-preservingly into Nat by the harness (big-endian in the first four bytes)",
        "rand.Perm seeded from (seed, round, step) in GetOnlineValidators is a parameter of the model: the harness recomputes the permutation with the same stdlib calls and passes it on the op line",
    ],
    "assumptions": [
        "every non-deleted value of an identity-state diff that carries a delegatee is validated (DiffWF). Proved to be maintained by the modelled registry writes of block application (wf_preserved, history_wf) under two guards that live outside the registry (no status switch for an identity with a ledger delegatee: validation.go:561-564; an identity with a ledger delegatee is offline at the end of an epoch: blockchain.go:1915), both shown necessary (guard_needed_*); observed on every block of the real-chain histories (channel C10H: no non-WF diff, no online delegator). Not droppable: update_ne_load_nonWF (F7)",
        "registry_matches_ledger is proved for the validated flag and the delegatee in a registry-level joint event model (registry_matches_ledger_partial); 'only validated identities or pools are online' needs the ledger model and is checked after every block of the real-chain histories instead",
        "sequential use of the cache (the mutex is not modelled)",
    ],
}
META = {
    "text": "Lean 4 proof that the incrementally maintained validator view (UpdateFromIdentityStateDiff) and the view rebuilt from the stored registry (loadValidNodes) answer every getter identically for every registry and every well-formed diff (any number of blocks, any enumeration order of the Go hash sets), with the well-formedness invariant shown to be preserved by the registry writes of block application and the validated flag / delegatee shown to mirror the ledger; tied to core/validators, core/state and blockchain by differential runs of the real IdentityStateDB + ValidatorsCache against the compiled model (synthetic adversarial diffs, and the stored identity diffs of real chains with epochs, delegations, kills), by an independent incremental-vs-rebuild oracle and by a registry-vs-ledger oracle after every real block.",
    "design_ref": "DESIGN.md 5 (C10), 4 (M-Registry), 6 (F7)",
    "note": "Trusted: Lean kernel (+propext, Classical.choice, Quot.sound), IAVL iteration order, the Go harness and overlay. The registry-vs-ledger part is proved for a registry-level event model; agreement of that event model with block application on real chains is left to the history-level correspondence.",
    "technique": "Lean 4 representation-invariant proof (abstraction function + per-step invariant) + differential correspondence against the real Go code",
}
