PROP = {
    "modules": ["IdenaModel.Props.C12"],
    "theorems": [],
    "channels": [{"name": "C12", "exe": "oracle_c12"}],
    "trusted_base": [],
    "assumptions": [],
}
META = {"text": "TODO", "design_ref": "DESIGN.md 5 (C12)", "note": "TODO", "technique": "TODO"}
