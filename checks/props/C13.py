PROP = {
    "modules": ["IdenaModel.Props.C13", "IdenaModel.Props.C13State"],
    "theorems": [
        "IdenaModel.Store.overlay_refines",
        "IdenaModel.Store.iter_eq",
        "IdenaModel.Store.overlay_perm_unchanged",
        "IdenaModel.Store.overlay_perm_unchanged_run",
        "IdenaModel.Store.overlay_as_found_counterexample",
        "IdenaModel.Store.overlay_refines_staged",
        "IdenaModel.Store.staged_invisible",
        "IdenaModel.Store.view_isolated",
        "IdenaModel.Store.view_refines",
        "IdenaModel.Store.at_commit_self",
        "IdenaModel.Store.at_commit_older",
        "IdenaModel.Store.retention_commit",
        "IdenaModel.Store.desc_commit",
        "IdenaModel.Store.reset_discards",
        "IdenaModel.Store.reset_is_last_commit",
        "IdenaModel.Store.reset_versions",
    ],
    "channels": [{"name": "C13", "exe": "oracle_c13"}, {"name": "C13state", "exe": "oracle_c13s"}],
    "trusted_base": [
        "tm-db MemDB (third party) modelled as a strictly sorted association list; its argument checks (empty key, nil value, empty bound) are mirrored in the Lean driver glue, not in the theorem",
        "byte-string keys embedded order-preservingly into Nat by the driver (keys <= 8 bytes)",
        "state level: the IAVL tree (third party) is modelled as a list of saved versions of sorted stores with pruning to MaxSavedStatesCount; account balances stand for arbitrary state values; views during real block validation/building are additionally covered by C03 (database hash before/after every refused block)"],
    "assumptions": ["sequential use of one view (concurrency is out of the model)"],
}
META = {
    "text": "Refinement theorem in Lean 4 (all base contents, all operation sequences, both iteration directions): the copy-on-write store answers exactly like an ordinary store pre-loaded with the base and never writes the base; tied to database/backed_mem_db.go by differential runs of the real BackedMemDb against the compiled Lean model and by an independent Go reference store.",
    "design_ref": "DESIGN.md 5 (C13), 4 (M-Store)",
    "note": "Trusted: Lean kernel (+propext, Classical.choice, Quot.sound), tm-db MemDB as a sorted map, the Go harness and overlay. Not covered by the theorem: concurrent use of one view.",
    "technique": "Lean 4 refinement proof (simulation relation + merged-iterator lemma) + differential correspondence against the real Go code",
}
