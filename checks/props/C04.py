PROP = {
    "modules": ["IdenaModel.Props.C04", "IdenaModel.Props.C04Tx", "IdenaModel.Props.C04Chain"],
    "theorems": [
        # constants
        "IdenaModel.Rewards.percent_sum_le_one",
        "IdenaModel.Rewards.defaultCfg_ok",
        # reward arithmetic
        "IdenaModel.Rewards.splitReward_sum",
        "IdenaModel.Rewards.splitReward_nonneg",
        "IdenaModel.Rewards.penalty_no_mint",
        "IdenaModel.Rewards.stakeShareToBurn_le",
        "IdenaModel.Rewards.finalCommittee_sum_le",
        "IdenaModel.Rewards.rewardFinalCommittee_spec",
        "IdenaModel.Rewards.applyBlockRewards_spec",
        # epoch distribution
        "IdenaModel.Rewards.catPayouts_sum_le",
        "IdenaModel.Rewards.catPayouts_sum_lt",
        "IdenaModel.Rewards.paid_le_pool",
        "IdenaModel.Rewards.paid_le_pool_eps",
        "IdenaModel.Rewards.epochRewards_sum_le_pool",
        "IdenaModel.Rewards.epochRewards_asFound_le",
        "IdenaModel.Rewards.epochRewards_can_exceed_pool",
        # block-level steps
        "IdenaModel.Rewards.applyNewEpoch_spec",
        "IdenaModel.Rewards.burnIdentity_spec",
        "IdenaModel.Rewards.applyBlockPost_spec",
        # the property, per block and for all chains (transactions as hypotheses StepOk)
        "IdenaModel.Rewards.txs_no_growth",
        "IdenaModel.Rewards.blockRewards_minted_le",
        "IdenaModel.Rewards.block_bound",
        "IdenaModel.Rewards.emptyBlock_no_growth",
        "IdenaModel.Rewards.nonneg_preserved",
        "IdenaModel.Rewards.chain_inv",
        "IdenaModel.Rewards.chain_bound",
        "IdenaModel.Rewards.chain_bound_asFound",
        "IdenaModel.Rewards.exGenesis_inv",
        # transaction level (ledger's Props/C04Tx.lean) and the composition
        "IdenaModel.Ledger.applyTx_inv",
        "IdenaModel.Ledger.applyTx_inv_contract",
        "IdenaModel.Ledger.applyTx_total_le",
        "IdenaModel.Ledger.applyTx_inv_needs_HeadOk",
        "IdenaModel.Ledger.exState_inv",
        "IdenaModel.Rewards.ledgerStep_ok",
        "IdenaModel.Rewards.ledger_chain_inv",
        "IdenaModel.Rewards.ledger_chain_bound",
    ],
    "channels": [{"name": "C04", "exe": "oracle_c04"}, {"name": "C04fn", "exe": "oracle_c04"},
                 {"name": "C04tx", "exe": "oracle_c05"}],   # D-tx (harness/internal/dtx) with the tx-level C04 oracle; model driver of M-Ledger
    "shim_tags": ["c05"],
    "trusted_base": [
        "what is data of a block event in the model, for arbitrary values, and not computed by it: the big.Float stake weights of the final committee (the model gets each member's requested integer), the float32 weights of the epoch categories and the category totals (as decimals), the validation outcome (who is killed, verified, rewarded), the sets of dust accounts / unlocked / deleted identities",
        "exact arithmetic of shopspring/decimal (constants from float32 via shortest decimal, Mul exact, Div = DivRound to 16 fractional digits half away from zero) and math.ToInt = truncation: restated in Lean (Rate, toInt, decDiv16) and compared line by line with the real functions (channel C04fn)",
        "steps of applyBlockOnState that do not touch funds (status / delegation / discrimination switches, global parameters, fee rate, VRF threshold, burnt-coins records) are not modelled; that they leave the ledger alone is observed by the full ledger iteration after every real block (channel C04), not proved",
        "killSave (ceremony.go:960-971): the model burns the rest of a killed identity's stake at once, the code at Precommit of the same block (block-boundary states agree)",
        "transaction level: Props/C04Tx.lean (ledger model M-Ledger, audited under C05) with its hypotheses HeadOk (F9) and VmOk (contract VM obligations, C15)",
        "chain fixture harness/internal/chainfx (real node start-up, virtual clock, ceremony attach shim; HistoryOpts.Contracts = real embedded TimeLock / Multisig contracts, contracts.go), export shims blockchain--c04 / core__ceremony--c04"],
    "assumptions": [
        "epoch distribution, exact statement (epochRewards_sum_le_pool, block_bound, chain_bound): every category total is at least the exact sum of the category's weights and below 2e16; the code accumulates the totals in float32 (rewards.go:86,270,285,498), which violates the first condition in about half of the generated cases — open finding C04:epoch-payouts-exceed-pool; on the code as found issuance is bounded by (1+eps)*(pool+6) per epoch (epochRewards_asFound_le / chain_bound_asFound) where 1/(1+eps) is the worst ratio float32-total / exact-sum (standard floating point error analysis: eps <= n*2^-24/(1-n*2^-24) for n additions; measured by the harness, not proved in Lean)",
        "penalties stored in the state are non-negative (the wire format drops the sign; SubPenalty never goes below zero)",
        "BlockReward + FinalCommitteeReward is a multiple of 100 (so every percentage of the pool is a whole number of base units) — checked for the constants by defaultCfg_ok"],
}
META = {
    "text": "Lean 4 proofs over a block/epoch-level model of the ledger (Model/Rewards.lean on top of the transaction-level M-Ledger): for all chains, all transactions (as the two transaction-level theorems of Props/C04Tx.lean, composed in Props/C04Chain.lean), all committees, penalties and validation results, every balance, stake (0 <= locked <= replenished <= stake) and contract stake stays non-negative at every block boundary (chain_inv); transactions never increase the total; a proposed block adds at most BlockReward+FinalCommitteeReward, an empty non-epoch block nothing, a validation-finishing block additionally at most one epoch pool PROVIDED the category totals are exact (chain_bound). As found, the category totals are float32 running sums, and epochRewards_can_exceed_pool is a proved witness that the pool can then be exceeded (open finding C04:epoch-payouts-exceed-pool, reproduced on the real rewardValidIdentities); chain_bound_asFound bounds issuance by (1+eps)*(bound+6) per block in terms of the relative shortfall eps of the totals. Tied to /repo on every run by (a) real multi-epoch chain histories with a full ledger iteration before/after every block and the block's transactions alone through processTxs, checked by the Lean checkBlockBound from its own constants, and (b) the real reward functions (splitReward, calculatePenalty, applyBlockRewards/rewardFinalCommittee, every category of rewards.go incl. float32 weights, applyOnState stake moves, determineStakeShareToBurn, clearDustAccounts) answered line by line by the Lean functions.",
    "design_ref": "DESIGN.md 5 (C04), Appendix A (block level)",
    "note": "Issuance per epoch is bounded by the pool only up to float32 rounding of the category totals on the code as found: pool*(1+eps), eps ~ 1e-7 (observed excess up to 2.4e16 base units on a 3e23 pool); this is the open finding, not hidden. Trusted: Lean kernel (+propext, Classical.choice, Quot.sound), the modelling of float/big.Float results as event data, the decimal semantics restated in Lean (checked differentially), Props/C04Tx's hypotheses HeadOk/VmOk, harness + overlay.",
    "technique": "Lean 4 invariant + bound proofs (induction over committee / payees / blocks / chains) + differential correspondence on real chain histories and on the real reward functions through export shims",
}
