PROP = {
    "modules": ["IdenaModel.Props.C02", "IdenaModel.Props.C02Compose"],
    "theorems": [
        "IdenaModel.BlockBuild.process_filter_ok",
        "IdenaModel.BlockBuild.filter_sublist",
        "IdenaModel.BlockBuild.filter_gas_bound",
        "IdenaModel.BlockBuild.process_filter_legacy_ok",
        "IdenaModel.BlockBuild.legacy_state_runs_ahead",
        "IdenaModel.BlockBuild.filterD_all_kept",
        "IdenaModel.BlockBuild.propose_accepted",
        "IdenaModel.BlockBuild.propose_as_found_rejected",
        "IdenaModel.BlockValidate.proposeTime_not_early",
        "IdenaModel.BlockValidate.honest_header_accepted_iff",
        "IdenaModel.BlockValidate.honest_header_accepted",
        "IdenaModel.BlockValidate.honest_header_refused_only_for_time",
    ],
    "channels": [{"name": "C02", "exe": "oracle_c02"}],
    "trusted_base": [
        "per-transaction verdicts (ValidateTx, applyTxOnState, fee, gas) are parameters of the theorem; the correspondence feeds the recorded real verdicts",
        "header derivation: Model/ProposeHeader.lean states which function fills which field of ProposeBlock's header in the vocabulary of M-BlockValidate (the recomputation functions stay parameters: both paths call the same Go functions on the same state, which is C01); honest_header_accepted_iff then says a correct validator on the same head accepts iff the proposer's clock is not more than MaxFutureBlockOffset ahead; the clock clause is exercised on the two replicas (lines `clock <head time> <proposer clock> <validator clock>`: real header time and real verdict, refused blocks must not be insertable and must be accepted unchanged once the clock caught up); the rest by the two-replica run (B's real ValidateBlock on A's real ProposeBlock) and by C03's tampering matrix",
        "side-effecting validation (finding F18): `propose_accepted` is about ProposeBlock's shape `filter; if dropped then strict re-run on a clean state`; that shape is re-extracted from blockchain.go by go/ast on every run (fact line) and exercised by the two-replica run with conflicting candidates",
        "chain fixture harness/internal/chainfx + pairfx (two real replicas, virtual clock, ceremony attach shim)"],
    "assumptions": ["Upgrade10 gas regime (every configuration since consensus v10); the legacy regime is modelled and its divergence documented"],
}
META = {
    "text": "Lean 4 theorem for ANY verdict functions, check state and candidate list: the validating path (processTxs) accepts exactly what the building path (filterTxs) kept, with equal state, fee, tips and gas; the body is a sub-list of the candidates and only its last transaction may cross the gas cap. Tied to blockchain.go by running the real filterTxs/processTxs on pool-built and adversarial candidate lists next to an independent Go reference and the compiled model, and end to end by two real replicas: B's ValidateBlock+AddBlock on every block A proposes over multi-epoch histories.",
    "design_ref": "DESIGN.md 5 (C02)",
    "note": "Trusted: Lean kernel (+propext, Classical.choice, Quot.sound), harness + overlay. Header derivation equality between ProposeBlock and validateBlock is exercised (two replicas), not modelled.",
    "technique": "Lean 4 proof by induction over the candidate list (parametric in the verdict functions) + differential correspondence and two-replica runs on real chains",
}
