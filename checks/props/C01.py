PROP = {
    "modules": ["IdenaModel.Props.C01", "IdenaModel.Props.C01Epoch", "IdenaModel.Props.C01Shards", "IdenaModel.Props.C01Balance", "IdenaModel.Props.C01Candidates"],
    "theorems": ["IdenaModel.Determinism." + t for t in [
        "C01_isort_perm", "C01_isort_perm_nodup", "C01_isortDesc_perm", "isort_unique", "isortDesc_unique",
        "commitOps_perm", "precommitOps_perm", "identityPrecommitOps_perm", "root_eq_of_ops_eq", "committee_perm",
        "perKeyWrites_perm", "addWrites_perm", "delKeys_perm", "commutingLoop_perm",
        "applyEpoch_sorted_perm", "applyEpochFull_perm", "applyEpoch_order_dependent", "applyEpoch_order_dependent_observable",
        "finalCommitteeRewards_sum_le", "finalCommitteeRewards_conserved",
        "nextValidationTime_tz_indep", "epochDays_tz_indep", "nextValidation_fixed_eq_asFound_utc", "nextValidationTime_local_tz_dep",
        "weekday_is_a_weekday", "iterate_sorted_perm", "iterate_order_dependent"]] + ["IdenaModel.CeremonyCandidates." + t for t in [
        "inv_step", "candidates_function_of_chain", "same_chain_same_candidates", "as_found_counterexample"]] + ["IdenaModel.CeremonyEpoch." + t for t in [
        "remove_newer", "inv_step", "inv_run", "answers_function_of_chain", "same_chain_same_answers", "as_found_counterexample", "fork_eval_same_content", "fork_eval_as_found_counterexample"]] + ["IdenaModel.Shards." + t for t in [
        "shardsNum_pos", "shardsNum_grow_bound", "grow_prev", "shrink_pow", "shardsNum_stable"]] + ["IdenaModel.ShardBalance." + t for t in [
        "run_isSome", "distribute_spec", "calls_spec", "relocated_in_range", "unselected_below", "all_in_range", "unselected_keep",
        "final_count", "counters_exact", "sizes_exact", "sizes_sum", "top_stakes", "top_stakes_sorted", "top_stakes_length",
        "top_stakes_largest", "topStakes_spec", "top_stakes_only_relocated", "ex_run"]],
    "channels": [
        {"name": "C01census", "exe": "oracle_c01"},
        {"name": "C01time", "exe": "oracle_c01"},
        {"name": "C01order", "exe": "oracle_c01"},
        {"name": "C01shards", "exe": "oracle_c01h"},
        {"name": "C01balance", "exe": "oracle_c01b"},
        {"name": "C01", "exe": "oracle_c01h", "timeout": {"quick": 1500, "thorough": 14000}},
    ],
    "trusted_base": [
        "sort.Slice/SliceStable/Strings return a sorted rearrangement, sort.Search the least index of a monotone predicate (uniqueness theorems then give the model's list)",
        "an IAVL root is a function of the tree-operation sequence; byte keys embed order-preservingly into Nat",
        "the source census is syntactic: 154 reviewed sites (map ranges, mapset iterations, sync.Map.Range, clock and zone-sensitive time calls, global rand, host calls, go statements, selects) in 15 consensus-path packages, each classified by hand; guards count sort and .UTC() calls; an unknown site or a removed guard breaks the correspondence",
        "replica differential: generator and follower processes with the real code under different host time zones, clock skew, restarts, reorg-and-return; the virtual clock of the overlay; VRF proofs are randomised so block hashes differ across runs while roots must not",
        "balanceShards: the three rnd.Perm results are inputs of the model; the harness reproduces them with the same rand.New(rand.NewSource(int64(total))) sequence, taking the slice lengths from its own re-statement of the selection loop (the model recomputes the lengths and answers outside-domain when they differ); sort.Search in appendToTop is read as the least index of a monotone predicate (the slice is descending by top_stakes_sorted)",
        "float32/big.Float accumulation order (F10: totalStakeWeight differs in the last bits between enumerations; never observable in the integer rewards derived from it) and other CPU architectures are outside the model"],
    "assumptions": ["EnvImp.Iterate is a two-level composition; the model covers one level (StateDB level tied by C01order)"],
}
META = {
    "text": "Lean 4 theorems that every place where the transition consults node-local order or time is a function of its contents: sorted-before-commit op sequences (Precommit of both trees), sorted insertion idioms, repaired epoch application and contract-store iteration are invariant under any enumeration order (with kernel-checked witnesses that the code as found was not), next validation time is independent of the zone offset, committee rewards never exceed the pool. Tied to the code by (1) a source census re-extracted with go/types on every run and compared site by site with the reviewed table inside the Lean driver, (2) the real time functions over 37 zones, (3) the real sort/precommit/iteration/applyOnState functions on shuffled maps, (4) a replica differential: separate processes under four host time zones, clock skew, restart-from-db and reorg-and-return must accept every block of a generator process and reproduce root, identity root and next-block parameters per height.",
    "design_ref": "DESIGN.md 5 (C01)",
    "note": "Trusted: Lean kernel (+propext, Classical.choice, Quot.sound), the reviewed census classification, sort library contracts, harness + overlay. Not covered: float rounding order beyond what replicas observe, other architectures, goroutine timing (the transition is single-threaded).",
    "technique": "Lean 4 permutation-invariance proofs + regenerated source census + replica differential across processes/time zones/histories",
}
