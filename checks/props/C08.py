PROP = {
    "modules": ["IdenaModel.Props.C08"],
    "theorems": [
        "IdenaModel.Fork.fork_accept_sound",
        "IdenaModel.Fork.fork_missing_or_empty_cert_refused",
        "IdenaModel.Fork.fork_without_certs_refused",
        "IdenaModel.Fork.adoption_eq_sync",
        "IdenaModel.Fork.reverted_txs_eq",
        "IdenaModel.Fork.adoption_stores_certs",
        "IdenaModel.Fork.adoption_certs_eq_sync",
        "IdenaModel.Fork.adoption_stores_no_empty_cert",
        "IdenaModel.Fork.applyFork_nonNil_rule_stores_empty_cert",
        "IdenaModel.Fork.checkForkSize_total",
        "IdenaModel.Fork.processBlocks_no_panic",
        "IdenaModel.Fork.processBlocks_applicable",
        "IdenaModel.Fork.resolver_adoption_eq_sync",
        "IdenaModel.Fork.fork_accept_empty_tip_cert",
        "IdenaModel.Fork.checkForkSize_asFound_panics",
        "IdenaModel.Fork.applyFork_asFound_nil_cert_panics",
    ],
    "channels": [{"name": "C08", "exe": "oracle_c08", "timeout": {"quick": 900, "thorough": 7200}}],
    "trusted_base": [
        "block validity is a parameter: `Env.validBody prev state block` stands for everything validateBlock checks besides the parent link (header/VRF seed, proposer eligibility, transactions, flags, roots, cids) followed by the commit of the check state; the theorems hold for every such function (C03/C04 own its internals)",
        "certificate acceptability is a parameter: `Env.certOk prev state block cert` stands for ValidateBlockCert on a non-empty certificate with the validators of the state the block is built on (C07 owns its internals)",
        "hash law (hypothesis `HashInj` of adoption_eq_sync): distinct blocks in play have distinct header hashes (Keccak collision-freeness); for empty blocks the parent link is implied by the comparison with the regenerated empty block under the same law",
        "hypothesis `hdisj` of adoption_eq_sync: no transaction of the common prefix reappears in the abandoned branch (what C06's no_dup proves for accepted chains)",
        "repository / ipfs stores modelled as total maps Nat -> Option (header by hash incl. body, canonical hash by height, tx index, certificates, saved tree versions with MaxSavedStatesCount retention); weak-certificate eviction (100 entries) is not modelled",
        "correspondence instantiation: abstract state = list of applied block ids; `validBody` = 'the harness did not tamper the block'; `certOk` = reference quorum rule evaluated by the harness from the online validators of the parent state (no code under test involved)",
        "chain fixture harness/internal/chainfx (real node start-up, virtual clock), consensus shim (processBlocks fed through the channel the downloader would return)"],
    "assumptions": [
        "sequential use of the resolver (loadAndVerifyFork / ApplyFork run on their goroutines one at a time)",
        "validator sets of at most 8 online identities in the correspondence (committee = all online validators); committee sampling for larger sets is C07's"],
}
META = {
    "text": "Lean 4 proofs over an executable model of ForkResolver.processBlocks/checkForkSize/applyFork, Blockchain.ValidateSubChain/ResetTo/AddBlock/GetTx and the repository maps, for every validity and certificate predicate, every node and every bundle list of any length: an accepted fork is a chain of valid blocks on the state of the common height with certified identity-update blocks and a non-empty acceptable tip certificate; forks with missing/empty certificates are refused; adopting an accepted fork on a node that followed its own chain from genesis hands back exactly the abandoned transactions and leaves head, state, canonical map, header store and every transaction lookup equal to a node that followed the fork from genesis; the resolver returns a verdict on every peer answer. Tied to /repo by real replica groups (observed node, fork branch, clean follower) over one genesis with real keys and certificates of 13 shapes, tampered blocks and hostile lists, driven through the real processBlocks -> ValidateSubChain -> ApplyFork; an independent Go oracle compares the adopting node with the clean follower.",
    "design_ref": "DESIGN.md 5 (C08), 6 (F3, F15)",
    "note": "Trusted: Lean kernel (+propext, Classical.choice, Quot.sound), block validity and certificate acceptability as parameters (C03/C04/C07), hash collision-freeness, harness + overlay. As-found rules (F3 nil-only tip test, F15 unguarded loop, nil certificate write) are kept as flagged witness theorems only.",
    "technique": "Lean 4 refinement/invariant proofs (pointwise map lemmas, simulation between the reset node and the clean follower) + differential correspondence on real three-replica fork scenarios",
}
