PROP = {
    "modules": ["IdenaModel.Props.C17"],
    "theorems": [
        # Part A: decision table, all inputs
        "IdenaModel.Qual.missed_or_noflips_not_validated",
        "IdenaModel.Qual.invite_terminated",
        "IdenaModel.Qual.dead_stay_dead",
        "IdenaModel.Qual.undefined_without_flips_is_killed",
        "IdenaModel.Qual.decision_total",
        "IdenaModel.Qual.decision_range",
        "IdenaModel.Qual.promotion_needs_scores",
        "IdenaModel.Qual.staying_validated_needs_scores",
        "IdenaModel.Qual.passing_scores_keep_status",
        "IdenaModel.Qual.birthday_rules",
        # Part B.1: answer store as a function of the chain
        "IdenaModel.Qual.store_is_function_of_chain",
        "IdenaModel.Qual.store_restart_invisible",
        "IdenaModel.Qual.store_is_function_of_chain_no_restart",
        "IdenaModel.Qual.restart_visible_for_noncanonical_payload",
        "IdenaModel.Qual.store_after_reorg",
        "IdenaModel.Qual.store_after_reorg_continues",
        "IdenaModel.Qual.reorg_needs_unique_senders",
        # Part B.2/B.3: per-height cache
        "IdenaModel.Qual.nonCand_not_validated",
        "IdenaModel.Qual.hit_eq_miss",
        "IdenaModel.Qual.cacheHit_eq_recompute",
        "IdenaModel.Qual.eval_pure",
        "IdenaModel.Qual.eval_pure_when_cache_cleared",
        "IdenaModel.Qual.eval_pure_without_reset",
        "IdenaModel.Qual.stale_cache_after_reorg",
    ],
    "channels": [{"name": "C17", "exe": "oracle_c17"}],
    "trusted_base": [
        "float32 comparisons of determineNewIdentityState are inputs of the model (ScoreFlags); the driver recomputes them float-free from the float32 bit patterns (IEEE-754 total order on non-NaN values, NaN compares false) and cross-checks them against exact integer ratios (5*pts2 >= 6*cnt etc.) and against the booleans the Go side computed with common.Min* constants",
        "flip qualification (qualifyFlips / qualifyOneFlip / qualifyCandidate), reporter rewards, evidence-map majority (CalculateApprovedCandidates) and applyOnState are not modelled: they are parameters of the cache model (EvalIn, applyOne) and are exercised only by the mini-ceremonies on the real ValidationCeremony",
        "the answer store's maps and database records are modelled extensionally (address -> payload); tm-db MemDB and the protobuf codec of WriteAnswers/ReadAnswers are trusted (empty bytes decode as nil: Payload.norm)",
        "the ceremony fixture builds the object with the real NewValidationCeremony + Initialize (real BlockchainResetEvent handler, real restore) but without flipper/mempool/key pool/chain, computes candidates with the real getCandidatesAndFlips + lottery functions (copy of ceremony.go:548-567 in the shim) and feeds blocks through the real processCeremonyTxs + persist; the state's validation period is NonePeriod, so the per-period block handlers (network broadcasts) are not entered",
    ],
    "assumptions": [
        "payloads of chain transactions are as decoded from blocks: never a non-nil empty slice (Payload.canonical); the witness restart_visible_for_noncanonical_payload shows what happens otherwise (a locally created transaction object with payload \"0x\", epoch 0 long answers only)",
        "a sender has at most one answers transaction of each kind per epoch on a chain (validateCeremonyTx / HasValidationTx); needed only for reorganisations (reorg_needs_unique_senders)",
        "ApplyNewEpoch is called for height head+1 on the state of the head (block proposal, proposal validation, insertion); a restart re-processes the head block (Initialize(currentBlock) -> addBlock)",
        "order in which values are applied to the state: address order then non-candidates by shard, recorded in the cache entry and replayed on a hit (the code as it is); map-order independence of applyOnState itself is property C01",
    ],
}
META = {
    "text": "Lean 4 theorems over hand-written executable models: (A) the status decision table determineNewIdentityState/determineIdentityBirthday for ALL inputs (missed or missing flips => never Newbie/Verified/Human; Invite => Killed; Killed/Undefined never come back; total, closed transition relation; promotions need the published thresholds); (B) the answer store is a function of the chain's first writes under every schedule of crashes, restarts and reorganisations, cached re-evaluation equals first evaluation, every evaluation a node returns equals a clean node's when the cache is dropped on reset (witness: stale result when it is kept, finding F4); tied to /repo by an exhaustive grid (~440k calls) on the real decision function with boundary scores (exact, +-1 ulp, NaN, Inf), random histories of the real answer store over a real EpochDb, and mini-ceremonies on a real ValidationCeremony (arrival orders, crash/restart between blocks, first vs cached evaluation, reorganisation through the real BlockchainResetEvent handler) compared with a clean node.",
    "design_ref": "DESIGN.md 5 (C17), 2.7 (floats), 6 (F4)",
    "note": "Trusted: Lean kernel (+propext, Classical.choice, Quot.sound), the Go harness/overlay/shim, MemDB and protobuf. Not modelled (exercised by the ceremonies only): flip qualification, reporter rewards, evidence majority, applyOnState. Assumes canonical (decoded) payloads and one answers transaction per kind and sender on a chain.",
    "technique": "Lean 4 proofs (exhaustive case analysis of the decision table; invariants/induction over histories for store and cache) + differential correspondence against the real Go code + independent Go oracle (three rules, clean-node comparison)",
}
