PROP = {
    "modules": ["IdenaModel.Props.C09"],
    "theorems": [
        "IdenaModel.Crash.recover_consistent",
        "IdenaModel.Crash.recover_consistent_reset",
        "IdenaModel.Crash.recover_consistent_fastsync",
        "IdenaModel.Crash.clean_restart_id",
        "IdenaModel.Crash.recover_then_continue",
        "IdenaModel.Crash.recover_then_continue_code",
        "IdenaModel.Crash.insert_crash_wf",
        "IdenaModel.Crash.recover_of_wf",
        "IdenaModel.Crash.pruneList_lt",
        "IdenaModel.Crash.codePruner_prunesBelow",
        "IdenaModel.Crash.head_before_trees_needs_repair",
        "IdenaModel.Crash.head_before_trees_breaks",
        "IdenaModel.Crash.unbatched_switch_breaks",
        "IdenaModel.Crash.insert_crash_can_leave_hole",
        "IdenaModel.Crash.reset_on_hole_breaks",
        "IdenaModel.Crash.reset_heals_hole",
    ],
    "channels": [{"name": "C09", "exe": "oracle_c09", "timeout": {"quick": 900, "thorough": 7200}}],
    "trusted_base": [
        "granularity: one write event = one tm-db put/delete or one whole batch (LevelDB's atomic-batch contract); torn single puts and fsync ordering of the real disk database are not modelled (DESIGN C09 'Partial')",
        "the iavl fork below batch granularity: a tree is modelled as version -> root hash; SaveVersionAt / DeleteVersion / LoadVersionForOverwriting each commit exactly one batch (observed on every run by the class sequences), LoadVersion semantics as read from mutable_tree.go:352-410",
        "hashes and roots are interned natural numbers; distinct blocks have distinct hashes (collision freedom of the header hash)",
        "crash-injecting wrapper harness/internal/crashdb (records/cuts at the outermost injected dbm.DB) and the chain fixture harness/internal/chainfx (real node start-up sequence)",
    ],
    "assumptions": [
        "write sequences are deterministic functions of (store, operation): the store as of k writes is rebuilt from the recorded events (cross-checked against in-place write dropping on sampled cuts)",
        "fast sync is driven without networking (harness/cmd/c09/fastsync.go replays protocol/fast.go's storage-touching steps with the reference node's headers, identity diffs and snapshot); certificates and the own-transaction bloom path of fast sync are not driven",
    ],
}
META = {
    "text": "Lean 4 proofs about an executable model of the durable store at write-event granularity (AddBlock, ResetTo, fast-sync hand-over as write lists in the code's order; crash = any prefix; recover = InitializeChain + Initialize(head) else Initialize(0) + EnsureIntegrity): for EVERY crash point start-up succeeds with head roots = loaded roots at the interrupted or the previous/target height, a clean restart is the identity, and continuing with the same blocks reaches the never-crashed memory (any chain length). PROVED ABOUT THE MODEL: those theorems for all stores/blocks/crash points. ENUMERATED ON THE REAL CODE: the model's write order and its recover/continue answers are compared with the real node on every recorded operation and every cut point of the swept operations (thorough tier: every write event of every swept operation, reported per scenario as exhaustive=true), and an independent Go oracle checks start-up success, roots, allowed head heights, continuation to the reference head/roots and clean-restart identity on the real code.",
    "design_ref": "DESIGN.md 5 (C09), 2.7 last bullet",
    "note": "Trusted: Lean kernel (+propext, Classical.choice, Quot.sound), batch atomicity of tm-db/LevelDB, iavl below batch granularity, harness + overlay. Crash points of the real code are enumerated (exhaustively per swept operation in the thorough tier), not proved; the proofs are about the model whose write order and recovery answers are tied to the real code on every run.",
    "technique": "Lean 4 invariant proofs over write-list prefixes (all crash points, unbounded chain length) + differential correspondence (write-order tie, real start-up on every cut store) + independent Go crash-sweep oracle",
}
