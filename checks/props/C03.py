PROP = {
    "modules": ["IdenaModel.Props.C03", "IdenaModel.Props.C03Flags"],
    "theorems": [
        "IdenaModel.BlockValidate.validate_ok_iff",
        "IdenaModel.BlockValidate.validate_sound",
        "IdenaModel.BlockValidate.validate_complete",
        "IdenaModel.BlockValidate.tamper_rejected",
        "IdenaModel.BlockValidate.reject_no_effect",
        "IdenaModel.BlockValidate.original_still_insertable",
        "IdenaModel.BlockValidate.fields_classified",
        "IdenaModel.BlockValidate.derived_free_disjoint",
        "IdenaModel.Flags.transition_cases",
        "IdenaModel.Flags.finished_needs",
        "IdenaModel.Flags.finished_has_identity_update",
        "IdenaModel.Flags.snapshot_needs",
        "IdenaModel.Flags.period_steps_by_one",
        "IdenaModel.Flags.thresholds_ordered",
        "IdenaModel.Flags.afterlong_counts",
        "IdenaModel.Flags.afterlong_completes",
    ],
    "channels": [{"name": "C03", "exe": "oracle_c03"}, {"name": "C03flags", "exe": "oracle_c03f"}],
    "shim_tags": ["c03"],
    "trusted_base": [
        "the recomputation functions (DeriveSha, cid, processTxs+applyBlockOnState, bloom, VRF ProofToHash) are parameters of the validation theorems; calculateFlags, the timing predicates and the period / after-long / snapshot part of applyGlobalParams are modelled concretely (Model/Flags.lean) and compared block by block with real histories (channel C03flags; the offline flags are the proposer's free choice and masked; applyNewEpoch's changes to next validation time and shard count are re-read after every finishing block); tamper_rejected for SeedProof assumes uniqueness of the VRF proof for a given output (hypothesis hvrf)",
        "that validation runs on a private view (reject_no_effect) rests on C13; the harness additionally compares B's full database hash before/after every refusal",
        "header field lists are re-extracted from blockchain/types/types.go by go/ast at run time and classified by the Lean driver (an unknown field fails the correspondence)"],
    "assumptions": ["empty blocks: accepted iff hash equals the locally generated empty block (all fields derived)"],
}
META = {
    "text": "Lean 4 characterisation of validateBlock (acceptance iff every derived header field equals the recomputed value, timestamp in window, proposer eligible) and the tampering theorem for every derived field; rejection leaves the node unchanged and the original insertable. Tied to blockchain.go by the tampering matrix on two real replicas: every operator on every derived field, window violations, ineligible proposers and body edits against B's real ValidateBlock/AddBlock with full database hash comparison, plus a regenerated header-field census.",
    "design_ref": "DESIGN.md 5 (C03)",
    "note": "Trusted: Lean kernel (+propext, Classical.choice, Quot.sound), recomputation functions and VRF as parameters, harness + overlay.",
    "technique": "Lean 4 proof (characterisation of the check sequence + per-field tampering theorem) + exhaustive tampering matrix on real replicas + regenerated field census",
}
