PROP = {
    "modules": ["IdenaModel.Props.C06", "IdenaModel.Props.C06Refine"],
    "theorems": [
        "IdenaModel.Chain.chain_nonces",
        "IdenaModel.Chain.no_dup",
        "IdenaModel.Chain.replay_rejected",
        "IdenaModel.Chain.foreign_epoch_never_applied",
        "IdenaModel.Chain.inv_run",
        "IdenaModel.Chain.applied_rejected",
        "IdenaModel.Chain.inv_clearEpoch",
        "IdenaModel.Chain.clear_mid_epoch_allows_replay",
        "IdenaModel.C06Refine.applyTx_refines",
        "IdenaModel.C06Refine.ledger_run_refines",
        "IdenaModel.C06Refine.ledger_chain",
        "IdenaModel.C06Refine.ledger_replay_rejected",
    ],
    "channels": [{"name": "C06", "exe": "oracle_c06"}],
    "trusted_base": [
        "the abstraction: of everything applyTxOnState/ValidateTx test, only the nonce/epoch clauses are modelled (other clauses can only reject more); checked against the real code by the probe lines AND proved: the full per-type transaction model (M-Ledger, tied to the code by the C05 D-tx correspondence) refines this chain model (Props/C06Refine.lean), under the uint32 no-wrap hypothesis",
        "signature recovery identifies the sender (parameter); distinct signed transactions are distinguished by hash in the Go oracle, by (sender, epoch, nonce) in the model",
        "chain fixture harness/internal/chainfx (real node start-up, virtual clock, ceremony attach shim)"],
    "assumptions": ["dust clearing and deletion of empty accounts only reset nonces of accounts whose nonce is irrelevant (epoch change / nonce 0) — observed through the `acct` lines after every third block, not proved"],
}
META = {
    "text": "Lean 4 invariant proof over all accepted chains (any interleaving of transactions and epoch changes): per-(sender, epoch) nonces are exactly 1..k, no transaction (triple) occurs twice, and an included transaction is refused by the validation clauses and by the application rule in every later state, across epoch changes. Tied to blockchain.go/validation.go by real multi-epoch chain histories with reorgs: every included transaction, effective nonce and nonce/epoch probe is recomputed by the compiled model; an independent Go oracle re-offers included transactions through ValidateTx (3 modes), applyTxOnState and processTxs.",
    "design_ref": "DESIGN.md 5 (C06)",
    "note": "Trusted: Lean kernel (+propext, Classical.choice, Quot.sound), the nonce-only abstraction (validated by probes), harness + overlay. The full per-type transaction model (M-Ledger) is audited under C05.",
    "technique": "Lean 4 invariant proof (induction over the event list of a chain) + differential correspondence on real chain histories",
}
