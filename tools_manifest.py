#!/usr/bin/env python3
"""Regenerates MANIFEST.json from checks/registry.py + checks/manifest_meta.py (so it is always valid)."""
import json, os, sys
sys.path.insert(0, os.path.join(os.path.dirname(os.path.abspath(__file__)), "checks"))
from registry import PROPS, META
NOT_YET = {}

ALL = [f"C{i:02d}" for i in range(1, 21)]
READY = set(open(os.path.join(os.path.dirname(os.path.abspath(__file__)), "checks", "ready.txt")).read().split())
PROPS = {k: v for k, v in PROPS.items() if k in READY}   # only vetted checks are claimed
checks = []
for pid in ALL:
    if pid not in PROPS:
        continue
    m = META[pid]
    checks.append({
        "property_id": pid,
        "quick_cmd": f"./check {pid} --tier quick",
        "thorough_cmd": f"./check {pid} --tier thorough",
        "evidence_file": f"/verif/evidence/{pid}.json",
        "replay_cmd_template": f"./check {pid} --replay {{path}}",
        "engine": "lean4-model+correspondence",
        "level_claimed": {"category": PROPS[pid].get("level", "proof"), "text": m["text"], "design_ref": m["design_ref"]},
        "level_note": m["note"],
        "technique": m["technique"],
    })
man = {
    "version": 1,
    "setup_cmd": "./check --setup",
    "hooks": {
        "guard": "go build -overlay (file generated at check time by /verif/harness/cmd/genoverlay from /repo's working tree); no hook commits in /repo, no build tag needed",
        "enable": "build/genoverlay -repo /repo -out build/overlay && go build -overlay build/overlay/overlay.json ./cmd/corr  (ipfs stub, add-only export shims zz_verif_export*.go, rewritten copies of 5 source files: time.Now/Since/Sleep/Until -> virtual clock, and one inserted call of blockchain.VerifGenesisHook in generateGenesis; nothing of this exists on disk in /repo)",
        "baseline_off_cmd": "cd /repo && GOFLAGS=-mod=mod GOPROXY=off GOSUMDB=off go test -mod=mod -json -vet=off -count=1 -timeout 25m ./...",
        "source_commits": [],
        "add_only": False,
    },
    "engines": [{
        "name": "lean4-model+correspondence", "path": "/verif/check",
        "serves_properties": [c["property_id"] for c in checks],
        "kind_free_text": "Lean 4 theorems about hand-written executable models (lake project /verif/lean), tied to /repo on every run by a differential correspondence harness calling the real Go code in process (/verif/harness) plus regenerated fact tables re-checked by `decide`",
    }],
    "checks": checks,
    "not_applicable": [{"property_id": pid, "reason": NOT_YET.get(pid, "check not built yet in this round; no claim is made")}
                       for pid in ALL if pid not in PROPS],
    "notes": "fix: commits in /repo repair defects found by these checks (see known_findings.json, DESIGN.md section 6).",
}
json.dump(man, open(os.path.join(os.path.dirname(os.path.abspath(__file__)), "MANIFEST.json"), "w"), indent=1)
print("MANIFEST.json:", len(checks), "checks,", len(man["not_applicable"]), "not claimed")
