#!/bin/bash
# mk_worktree.sh <name>: scratch git worktree of /repo at /tmp/wt_<name> plus a build kit /tmp/wt_<name>_kit
# (ipfs stub overlay for that path; nothing of the verification machinery is copied).
set -e
name=$1
wt=/tmp/wt_$name
kit=/tmp/wt_${name}_kit
git -C /repo worktree add -f --detach "$wt" HEAD >/dev/null 2>&1
mkdir -p "$kit"
cp /verif/harness/overlay/ipfs_stub.go.tmpl "$kit/ipfs_stub.go"
cat > "$kit/overlay.json" <<EOT
{"Replace": {"$wt/ipfs/ipfs.go": "$kit/ipfs_stub.go"}}
EOT
cat > "$kit/README.txt" <<EOT
Worktree: $wt   (a git worktree of the repository; edit here, never in /repo)
The repository's packages that import /ipfs (blockchain, core/*, consensus, protocol, vm/*, ...) only compile in this
sandbox when /ipfs/ipfs.go is replaced by a stub through a build overlay:
  cd $wt
  export GOFLAGS=-mod=mod GOPROXY=off GOSUMDB=off GOTOOLCHAIN=local
  go build -overlay $kit/overlay.json ./...
  go test  -overlay $kit/overlay.json -vet=off -count=1 ./blockchain/ ./core/... ./consensus/ ...
The pinned baseline suite (must still pass with your change) is the plain, overlay-less run, in which only the leaf
packages compile:  cd $wt && GOFLAGS=-mod=mod GOPROXY=off GOSUMDB=off go test -mod=mod -vet=off -count=1 ./... 2>&1 | grep -v "^#\|quic-go\|FAIL.*build failed\|setup failed"
No network. Go 1.23.5.  Tests create ./testdata* dirs; ignore them.
EOT
echo "$wt $kit"
