#!/usr/bin/env python3
"""Rewrites the generated regions of DESIGN.md (checks table, seeded-change matrix, findings list) from
checks/props, evidence/, seeded/ and known_findings.json."""
import json, glob, os, sys, re
V = os.path.dirname(os.path.dirname(os.path.abspath(__file__)))
sys.path.insert(0, os.path.join(V, 'checks'))
from registry import PROPS

def checks_table():
    rows = []
    for pid in sorted(PROPS):
        cfg = PROPS[pid]
        try: ev = json.load(open(f'{V}/evidence/{pid}.json'))
        except Exception: ev = {'coverage': {}}
        cov = ev.get('coverage', {})
        rows.append(f"| {pid} | {', '.join(m.split('.')[-1] for m in cfg['modules'])} | {len(cfg['theorems'])} | "
                    f"{', '.join(c['name'] + ('' if c.get('exe') else ' (oracle only)') for c in cfg['channels'])} | "
                    f"{cov.get('evaluations', '?')} | {cov.get('protocol_lines_compared', '?')} | {ev.get('wall_s', '?')} |")
    return ("| id | Lean property modules (lean/IdenaModel/Props) | audited theorems | channels (harness/cmd/cxx) | evaluations (last quick run) | "
            "model/impl lines compared | wall s |\n|---|---|---|---|---|---|---|\n" + "\n".join(rows) + "\n")

def seeded_table():
    srows = []
    for d in sorted(glob.glob(f'{V}/seeded/*')):
        sid = os.path.basename(d)
        if '-via-' in sid: continue
        try: v = json.load(open(d + '/verification.json')); m = json.load(open(d + '/meta.json'))
        except Exception: continue
        via = []
        for e in sorted(glob.glob(f'{V}/seeded/{sid}-via-*')):
            try:
                vv = json.load(open(e + '/verification.json'))
                via.append(f"{os.path.basename(e).split('-via-')[1]}: {'caught' if vv.get('check_rc') == '1' else 'missed'}")
            except Exception: pass
        chk = v.get('check_cmd', '').split('./check ')[-1].strip()
        fc = m.get('files_changed'); fc = ', '.join(fc) if isinstance(fc, list) else str(fc)
        srows.append(f"| {sid} | {fc} | {(m.get('what_breaks') or '')[:170].replace('|', '/')}… | {(m.get('needs_to_manifest') or '')[:150].replace('|', '/')}… | "
                     f"`./check {chk}`: **{'caught' if v.get('check_rc') == '1' else 'MISSED'}**{(' (' + ', '.join(via) + ')') if via else ''} | "
                     f"{'yes' if v.get('demo_confirmed') else '?'} | {v.get('baseline_pass_fail', '?')} |")
    return ("| seed | files | what breaks | needs | result of the owning check on the patched copy | demo fails with / passes without (confirmed) | baseline pass/fail with patch |\n"
            "|---|---|---|---|---|---|---|\n" + "\n".join(srows) + "\n")

def findings_list():
    d = json.load(open(f'{V}/known_findings.json'))
    return "\n".join(f"* `{f['id']}` {f['property']} **{f['status']}**" + (f" ({f.get('commit')})" if f.get('commit') else '') + f" `{f['signature']}` — {f['what'][:260]}" for f in d['findings']) + "\n"

p = f'{V}/DESIGN.md'
s = open(p).read()
for name, gen in (('checks-table', checks_table), ('seeded-table', seeded_table), ('findings-list', findings_list)):
    b, e = f'<!-- BEGIN:{name} -->', f'<!-- END:{name} -->'
    if b in s and e in s:
        i, j = s.index(b) + len(b), s.index(e)
        s = s[:i] + "\n" + gen() + s[j:]
open(p, 'w').write(s)
print("DESIGN.md regions regenerated")
