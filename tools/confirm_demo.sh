#!/bin/bash
# confirm_demo.sh <seed_id> <worktree>: demo fails with patch.diff applied, passes without (run in the agent's worktree)
id=$1; wt=$2; d=/verif/seeded/$id
export GOFLAGS=-mod=mod GOPROXY=off GOSUMDB=off GOTOOLCHAIN=local
cmd=$(python3 -c "import json,re;print(re.split(r'\s+\((demo file|demo files)',json.load(open('$d/meta.json')).get('demo_cmd',''))[0])")
[ -z "$cmd" ] && { echo "$id: no demo_cmd"; exit 0; }
# demo files back in place
for f in $d/*_test.go; do [ -f "$f" ] || continue; n=$(basename $f); t=$(find $wt -name "$n" | head -1); [ -z "$t" ] && echo "  (demo file $n not found in worktree)"; done
cd $wt && git checkout -q -- . && git apply $d/patch.diff || { echo "$id: patch does not apply in worktree"; exit 1; }
( cd $wt && timeout 900 bash -c "$cmd" ) >/tmp/demo_$id.with 2>&1; rc_with=$?
git -C $wt checkout -q -- .
( cd $wt && timeout 900 bash -c "$cmd" ) >/tmp/demo_$id.without 2>&1; rc_without=$?
python3 - "$d/verification.json" "$rc_with" "$rc_without" <<'PY'
import json,sys
p=sys.argv[1]
try: d=json.load(open(p))
except Exception: d={}
d['demo_rc_with_patch']=sys.argv[2]; d['demo_rc_without_patch']=sys.argv[3]
d['demo_confirmed']= (sys.argv[2]!='0' and sys.argv[3]=='0')
json.dump(d,open(p,'w'),indent=1)
PY
echo "$id: demo rc with patch=$rc_with without=$rc_without"
