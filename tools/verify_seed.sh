#!/bin/bash
# verify_seed.sh <kit_out_dir> <seed_id> <property> [check args...]
#   kit_out_dir: directory holding patch.diff, demo file(s), meta.json produced by a mutation agent
#   Confirms in a scratch copy of /repo: patch applies, builds through the overlay, baseline suite still passes (262),
#   demo fails with the patch and passes without; then runs ./check <property> against the patched copy.
#   Result is stored in /verif/seeded/<seed_id>/ (patch.diff, demo, meta.json + verification.json).
set -u
src=$1; id=$2; prop=$3; shift 3
dst=/verif/seeded/$id
scratch=/tmp/seedchk_$id
rm -rf "$scratch"; rsync -a --exclude .git /repo/ "$scratch/"
mkdir -p "$dst"; cp -r "$src"/* "$dst"/ 2>/dev/null
export GOFLAGS=-mod=mod GOPROXY=off GOSUMDB=off GOTOOLCHAIN=local
kit=/tmp/seedchk_${id}_kit; mkdir -p $kit; cp /verif/harness/overlay/ipfs_stub.go.tmpl $kit/ipfs_stub.go
echo "{\"Replace\": {\"$scratch/ipfs/ipfs.go\": \"$kit/ipfs_stub.go\"}}" > $kit/overlay.json
res() { python3 - "$dst/verification.json" "$@" <<'PY'
import json,sys
p=sys.argv[1]; kv=sys.argv[2:]
try: d=json.load(open(p))
except Exception: d={}
for i in range(0,len(kv),2): d[kv[i]]=kv[i+1]
json.dump(d,open(p,'w'),indent=1)
PY
}
[ -n "${RECHECK:-}" ] || rm -f "$dst/verification.json"   # RECHECK=1: keep earlier results, skip the baseline suite
( cd "$scratch" && patch -p1 -s < "$dst/patch.diff" ) && res patch_applies yes || { res patch_applies no; echo "PATCH DOES NOT APPLY"; exit 1; }
( cd "$scratch" && go build -overlay $kit/overlay.json ./... ) >/tmp/seedchk_$id.build 2>&1 && res builds yes || { res builds no; echo "BUILD FAILS"; tail -5 /tmp/seedchk_$id.build; exit 1; }
[ -n "${RECHECK:-}" ] || { n=$( cd "$scratch" && go test -mod=mod -json -vet=off -count=1 -timeout 25m ./... 2>/dev/null | python3 -c "
import sys,json
p=f=0
for l in sys.stdin:
    try: e=json.loads(l)
    except Exception: continue
    if e.get('Test') and e.get('Action')=='pass': p+=1
    if e.get('Test') and e.get('Action')=='fail': f+=1
print(p,f)")
res baseline_pass_fail "$n"
echo "baseline pass/fail: $n"; }
echo "--- check $prop against patched copy"
( cd /verif && VERIF_REPO=$scratch ./check $prop "$@" ) > /tmp/seedchk_$id.check 2>&1
rc=$?
grep -h "VIOLATION\|KNOWN-FINDING\|\[check\] $prop" /tmp/seedchk_$id.check | tail -5
res check_cmd "VERIF_REPO=<patched copy> ./check $prop $*" check_rc "$rc" check_output "$(grep -h 'VIOLATION\|\[check\]' /tmp/seedchk_$id.check | tail -4)"
if [ -d /verif/build/alt_seedchk_$id/replays ]; then mkdir -p "$dst/replays"; cp /verif/build/alt_seedchk_$id/replays/* "$dst/replays/" 2>/dev/null; fi
rm -rf "$scratch" $kit /verif/build/alt_seedchk_$id
echo "check rc=$rc (1 = caught)"
