#!/bin/bash
# sweep_patch.sh <patch.diff> <name> [props...]: apply a patch to a scratch copy of /repo and run the quick check of every
# (or the named) property against it; prints rc per property.  Used for false-alarm testing with behaviour-preserving patches.
set -u
patchf=$1; name=$2; shift 2
props=${*:-C01 C02 C03 C04 C05 C06 C07 C08 C09 C10 C11 C12 C13 C14 C15 C16 C17 C18 C19 C20}
scratch=/tmp/sweep_$name
rm -rf "$scratch"; rsync -a --exclude .git /repo/ "$scratch/"
( cd "$scratch" && patch -p1 -s < "$patchf" ) || { echo "PATCH DOES NOT APPLY"; exit 2; }
for p in $props; do
  ( cd /verif && VERIF_REPO=$scratch ./check $p ) > /tmp/sweep_${name}_$p.log 2>&1
  echo "rc=$? $p $(grep -h 'VIOLATION' /tmp/sweep_${name}_$p.log | head -2 | tr '\n' ' ')"
done
mkdir -p /tmp/sweep_${name}_replays; cp -r /verif/build/alt_sweep_$name/replays/* /tmp/sweep_${name}_replays/ 2>/dev/null
rm -rf "$scratch" /verif/build/alt_sweep_$name
